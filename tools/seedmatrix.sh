#!/bin/bash
# Runs every kept seeded change against the quick check of its property (scratch worktree, VERIF_REPO)
# and writes /verif/seeded/MATRIX.md. usage: tools/seedmatrix.sh [tier]
TIER=${1:-quick}
cd /verif
OUT=seeded/MATRIX.md
echo "| seeded change | property | check exit | first violation signature |" > $OUT.tmp
echo "|---|---|---|---|" >> $OUT.tmp
for d in seeded/*/; do
  n=$(basename $d)
  [ -f $d/patch.diff ] || continue
  id=$(python3 -c "import json;print(json.load(open('$d/meta.json'))['property'])")
  log=$(tools/seedcheck.sh $d/patch.diff $id $TIER 2>&1)
  rc=$(echo "$log" | grep -o "seedcheck rc=[0-9]*" | tail -1 | cut -d= -f2)
  sig=$(echo "$log" | grep "signature:" | head -1 | sed 's/.*signature: //; s/  (count.*//' | cut -c1-110)
  python3 - "$d" "$rc" "$sig" "$TIER" <<'PY'
import json,sys
d,rc,sig,tier=sys.argv[1:5]
p=d+'meta.json'; m=json.load(open(p))
m.setdefault('detected_by',{})[tier]={'check_exit':int(rc or -1),'first_signature':sig}
json.dump(m,open(p,'w'),indent=1)
PY
  echo "| $n | $id | $rc | \`$sig\` |" >> $OUT.tmp
  echo "$n $id rc=$rc $sig"
done
mv $OUT.tmp $OUT
