#!/bin/bash
# usage: tools/runall.sh [tier] [seed]  -- runs every registered check sequentially, prints rc and wall time
TIER=${1:-quick}; export VERIF_SEED=${2:-1}
cd "$(dirname "$0")/.."
for id in $(python3 -c "import json;print(' '.join(c['property_id'] for c in json.load(open('MANIFEST.json'))['checks']))"); do
  t0=$(date +%s.%N)
  out=$(./vf check $id $TIER 2>&1); rc=$?
  t1=$(date +%s.%N)
  printf "%s rc=%d %.0fs %s\n" $id $rc $(echo "$t1 - $t0" | bc) "$(echo "$out" | grep -c '^KNOWN-FINDING') known-lines"
  if [ $rc -ne 0 ]; then echo "$out" | grep -v "classes" | head -12 | cut -c1-300; fi
done
