#!/bin/bash
# Re-creates seeded/<name>/patch.diff against /repo HEAD when it no longer applies cleanly (3-way merge).
cd /verif
for d in seeded/*/; do
  n=$(basename $d); [ -f $d/patch.diff ] || continue
  P=$(readlink -f $d/patch.diff)
  if git -C /repo apply --check $P 2>/dev/null; then continue; fi
  WT=/var/tmp/vfreb-$$
  git -C /repo worktree add --detach -q $WT HEAD
  if git -C $WT apply --3way $P 2>/dev/null && [ -z "$(git -C $WT diff --name-only --diff-filter=U)" ]; then
    cp $d/patch.diff $d/patch.orig.diff
    git -C $WT diff HEAD > $d/patch.diff
    echo "rebased $n"
  else
    echo "CANNOT REBASE $n"
  fi
  git -C /repo worktree remove --force $WT
done
