#!/usr/bin/env python3
"""Mutation gate: applies each hand-written mutant (mutants/mutants.py) to a scratch worktree of /repo and
runs the property's quick check against it. usage: tools/mutantgate.py [name-substring]"""
import os, subprocess, sys, json, re
sys.path.insert(0, "/verif/mutants")
from mutants import M, EQUIVALENT
flt = sys.argv[1] if len(sys.argv) > 1 else ""
rows = []
for name, prop, fn, old, new in M:
    if flt and flt not in name:
        continue
    wt = "/var/tmp/vfgate-%d" % os.getpid()
    subprocess.run(["git", "-C", "/repo", "worktree", "add", "--detach", "-q", wt, "HEAD"], check=True)
    try:
        p = os.path.join(wt, fn)
        s = open(p).read()
        if old not in s:
            rows.append((name, prop, "STALE", "pattern not found"))
            print(name, "STALE", flush=True)
            continue
        s = s.replace(old, new, 1)
        if "cachedRandomizers" in new and "var cachedRandomizers" not in s:
            s += "\nvar cachedRandomizers map[string]*big.Int\n"
        if 'fmt.Sprint(i)' in new and '"fmt"' not in s:
            s = s.replace('import (', 'import (\n\t"fmt"', 1)
        open(p, "w").write(s)
        env = dict(os.environ, GOFLAGS="-mod=mod", GOPROXY="off")
        b = subprocess.run(["go", "build", "./..."], cwd=wt, env=env, capture_output=True, text=True)
        if b.returncode != 0:
            rows.append((name, prop, "NOBUILD", b.stderr[-200:]))
            print(name, "NOBUILD", b.stderr[-300:], flush=True)
            continue
        r = subprocess.run(["./vf", "check", prop, "quick"], cwd="/verif", env=dict(os.environ, VERIF_REPO=wt),
                           capture_output=True, text=True)
        m = re.search(r"signature: (.*?)\s+\(count", r.stdout)
        rows.append((name, prop, r.returncode, m.group(1)[:100] if m else ""))
        print(name, "rc=%d" % r.returncode, m.group(1)[:100] if m else "", flush=True)
    finally:
        subprocess.run(["git", "-C", "/repo", "worktree", "remove", "--force", wt])
if not flt:
    with open("/verif/mutants/RESULTS.md", "w") as f:
        f.write("| mutant | property | quick check exit | first violation signature / note |\n|---|---|---|---|\n")
        for r in rows:
            note = "`%s`" % r[3] if r[3] else ""
            if r[0] in EQUIVALENT:
                note = "EQUIVALENT: " + EQUIVALENT[r[0]]
            f.write("| %s | %s | %s | %s |\n" % (r[0], r[1], r[2], note))
