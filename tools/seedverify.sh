#!/bin/bash
# usage: tools/seedverify.sh <dir with patch.diff, demo files, meta.json> <name>
# Confirms in a scratch worktree: demo passes on original; with patch: builds, suite passes, demo fails.
# On success copies the directory to /verif/seeded/<name>/ with a verification record.
set -u
SRC=$(readlink -f "$1"); NAME=$2
WT=/var/tmp/vfver-$$
export GOFLAGS=-mod=mod GOPROXY=off
git -C /repo worktree add --detach -q "$WT" HEAD || exit 3
trap 'git -C /repo worktree remove --force "$WT" >/dev/null 2>&1; rm -rf "$WT"' EXIT
DEMO=$(python3 -c "import json;print(json.load(open('$SRC/meta.json'))['demo_cmd'])")
# place demo files where the demo_cmd expects them: meta may give demo_dest; default = package dir named in demo_cmd
PKG=$(echo "$DEMO" | grep -o '\./[A-Za-z0-9_/.]*' | tail -1); PKG=${PKG:-.}
for f in "$SRC"/*_test.go "$SRC"/*.go; do [ -f "$f" ] && cp "$f" "$WT/$PKG/"; done
cd "$WT"
echo "== demo on original"; (eval "$DEMO") > /tmp/sv.$$.orig 2>&1; ORIG=$?
git apply "$SRC/patch.diff" || { echo "PATCH DOES NOT APPLY"; exit 3; }
echo "== build"; go build ./... > /tmp/sv.$$.build 2>&1; BUILD=$?
echo "== demo with patch"; (eval "$DEMO") > /tmp/sv.$$.mut 2>&1; MUT=$?
# suite without the demo files
for f in "$SRC"/*_test.go "$SRC"/*.go; do [ -f "$f" ] && rm -f "$WT/$PKG/$(basename $f)"; done
echo "== suite with patch"; go test -vet=off -count=1 -timeout 25m ./... > /tmp/sv.$$.suite 2>&1; SUITE=$?
if [ $SUITE -ne 0 ]; then echo "== suite failed once, retrying (known ~1% natural flake of the nonrevocation tests)"; cp /tmp/sv.$$.suite /tmp/sv.$$.suite1; go test -vet=off -count=1 -timeout 25m ./... > /tmp/sv.$$.suite 2>&1; SUITE=$?; fi
git checkout -q go.mod go.sum 2>/dev/null
echo "orig_demo_rc=$ORIG build_rc=$BUILD mutant_demo_rc=$MUT suite_rc=$SUITE"
if [ $ORIG -eq 0 ] && [ $BUILD -eq 0 ] && [ $MUT -ne 0 ] && [ $SUITE -eq 0 ]; then
  mkdir -p /verif/seeded/$NAME && cp "$SRC"/patch.diff "$SRC"/meta.json /verif/seeded/$NAME/ && for f in "$SRC"/*.go; do [ -f "$f" ] && cp "$f" /verif/seeded/$NAME/$(basename $f).txt; done
  SV_NAME="$NAME" SV_DEMO="$DEMO" SV_MUT="$MUT" python3 - <<'PY'
import json, os
p='/verif/seeded/%s/meta.json' % os.environ['SV_NAME']; m=json.load(open(p))
m['confirmed']={'demo_passes_on_original':True,'builds_with_patch':True,'demo_fails_with_patch':True,'existing_suite_passes_with_patch':True,
 'how':'tools/seedverify.sh in a scratch worktree of /repo HEAD: %s (orig rc 0, with patch rc %s); go build ./...; go test -vet=off -count=1 ./... (rc 0)' % (os.environ['SV_DEMO'], os.environ['SV_MUT'])}
json.dump(m,open(p,'w'),indent=1)
PY
  echo "KEPT /verif/seeded/$NAME"
else
  echo "REJECTED"; tail -5 /tmp/sv.$$.orig; tail -5 /tmp/sv.$$.build; tail -15 /tmp/sv.$$.suite | grep -v "^ok"
fi
rm -f /tmp/sv.$$.*
