#!/bin/bash
# usage: tools/seedcheck.sh <patch.diff> <ID> [tier]   -- runs a check against a scratch worktree of /repo with the patch applied
set -u
PATCH=$(readlink -f "$1"); ID=$2; TIER=${3:-quick}
WT=/var/tmp/vfmut-$$
git -C /repo worktree add --detach -q "$WT" HEAD || exit 3
trap 'git -C /repo worktree remove --force "$WT" >/dev/null 2>&1; rm -rf "$WT"' EXIT
if ! git -C "$WT" apply "$PATCH"; then echo "PATCH DOES NOT APPLY"; exit 3; fi
cd /verif && VERIF_REPO="$WT" ./vf check "$ID" "$TIER"
rc=$?
echo "seedcheck rc=$rc"
exit $rc
