#!/bin/bash
# usage: tools/seedround2.sh  -- for every finished round-2 seeded change under /tmp/seed4/out/<ID>/<c|d> not yet
# processed: confirm it (seedverify.sh), then run the property's quick check against it. Log lines: <name> VERIFY=<kept|rejected> CHECK rc=<n> <sig>
cd "$(dirname "$0")/.."
for d in /tmp/seed4/out/*/*/; do
  [ -f $d/meta.json ] && [ -f $d/patch.diff ] || continue
  id=$(basename $(dirname $d)); x=$(basename $d); n=$id$x
  [ -f /tmp/seed4/done.$n ] && continue
  v=$(tools/seedverify.sh $d $n 2>&1)
  if echo "$v" | grep -q "^KEPT"; then
    log=$(tools/seedcheck.sh seeded/$n/patch.diff $id quick 2>&1)
    rc=$(echo "$log" | grep -o "seedcheck rc=[0-9]*" | tail -1 | cut -d= -f2)
    sig=$(echo "$log" | grep "signature:" | head -1 | sed 's/.*signature: //; s/  (count.*//' | cut -c1-140)
    python3 - "seeded/$n/" "$rc" "$sig" quick <<'PY'
import json,sys
d,rc,sig,tier=sys.argv[1:5]
p=d+'meta.json'; m=json.load(open(p))
m.setdefault('detected_by',{})[tier]={'check_exit':int(rc or -1),'first_signature':sig}
json.dump(m,open(p,'w'),indent=1)
PY
    echo "$n VERIFY=kept CHECK rc=$rc $sig"
  else
    echo "$n VERIFY=rejected: $(echo "$v" | grep "orig_demo_rc" )"
    echo "$v" > /tmp/seed4/reject.$n.log
  fi
  touch /tmp/seed4/done.$n
done
