#!/bin/bash
# usage: tools/benigngate.sh [pattern]  -- applies each property-preserving change under /verif/benign to a scratch
# worktree of /repo and runs every quick check against it; every check must stay silent (exit 0, or 2 = inconclusive
# when a renamed unexported identifier breaks the build of a white-box harness).
cd "$(dirname "$0")/.."
V=$(pwd)
for p in benign/*${1}*.diff; do
  WT=/var/tmp/vfbenign-$$
  git -C /repo worktree add --detach -q $WT HEAD || exit 3
  if ! git -C $WT apply $V/$p; then echo "$p STALE"; git -C /repo worktree remove --force $WT; continue; fi
  for id in $(python3 -c "import json;print(' '.join(c['property_id'] for c in json.load(open('MANIFEST.json'))['checks']))"); do
    out=$(VERIF_REPO=$WT ./vf check $id quick 2>&1); rc=$?
    echo "$(basename $p .diff) $id rc=$rc $(echo "$out" | grep -m1 'signature:' | cut -c1-160)"
  done
  git -C /repo worktree remove --force $WT
done
