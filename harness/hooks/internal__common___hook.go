package common

// VfReseedCPRNG replaces the process-wide fast random generator by one keyed with seed, so
// that a generated case is a pure function of its seed. Injected by build overlay only
// (/verif harness); never part of the repository sources.
func VfReseedCPRNG(seed *[32]byte) {
	c, err := NewCPRNG(seed)
	if err != nil {
		panic(err)
	}
	globalCprng = c
}
