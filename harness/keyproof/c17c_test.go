package keyproof

// C17 - a whole key-correctness proof for a BAD key. N = P*Q with P = 2r^3+1 (r prime) and Q = 2q'+1:
// (P-1)/2 is a prime cube, P is not a safe prime. The four Gennaro proofs legitimately hold for
// such an N (P is "almost safe"); what excludes it is the part that proves (P-1)/2 and (Q-1)/2 prime
// inside commitments. The prover here runs that part honestly for OTHER numbers (a real prime rho in
// place of r^3) and sets the commitment of P to 0, a non-unit of the commitment group: every relation
// in which that commitment occurs (in particular P*Q = N) collapses to 0 for prover and verifier
// alike. Control: the same machinery without the zero proves a good key.

import (
	"fmt"
	gobig "math/big"
	"testing"

	"github.com/privacybydesign/gabi/big"
	"github.com/privacybydesign/gabi/internal/common"
	"github.com/privacybydesign/gabi/internal/vfh"
	"github.com/privacybydesign/gabi/zkproof"
	"pgregory.net/rapid"
)

// sqrtModPrimePower: a square root of c modulo r^k (r odd prime, gcd(c, r) = 1), or nil
func sqrtModPrimePower(c, r *gobig.Int, k int) *gobig.Int {
	x := new(gobig.Int).ModSqrt(new(gobig.Int).Mod(c, r), r)
	if x == nil || x.Sign() == 0 {
		return nil
	}
	m := new(gobig.Int).Set(r)
	for i := 1; i < k; i++ {
		m.Mul(m, r)
		// Hensel: x' = x - (x^2 - c) * (2x)^-1 mod r^(i+1)
		t := new(gobig.Int).Mul(x, x)
		t.Sub(t, c)
		inv := new(gobig.Int).ModInverse(new(gobig.Int).Lsh(x, 1), m)
		if inv == nil {
			return nil
		}
		t.Mul(t, inv)
		x.Sub(x, t).Mod(x, m)
	}
	chk := new(gobig.Int).Mul(x, x)
	chk.Mod(chk, m)
	if chk.Cmp(new(gobig.Int).Mod(c, m)) != 0 {
		return nil
	}
	return x
}

// sqrtModOddPart: a square root of c modulo r^k * q (r, q odd primes)
func sqrtModOddPart(c, r, q *gobig.Int, k int) *gobig.Int {
	x1 := sqrtModPrimePower(c, r, k)
	m1 := new(gobig.Int).Exp(r, gobig.NewInt(int64(k)), nil)
	x2 := new(gobig.Int).ModSqrt(new(gobig.Int).Mod(c, q), q)
	if x1 == nil || x2 == nil {
		return nil
	}
	// CRT
	m := new(gobig.Int).Mul(m1, q)
	i1 := new(gobig.Int).ModInverse(q, m1)
	i2 := new(gobig.Int).ModInverse(m1, q)
	a := new(gobig.Int).Mul(x1, q)
	a.Mul(a, i1)
	b := new(gobig.Int).Mul(x2, m1)
	b.Mul(b, i2)
	a.Add(a, b).Mod(a, m)
	return a
}

type c17Forger struct {
	s        ValidKeyProofStructure
	g        zkproof.Group
	N, P, Q  *big.Int
	r, qp    *gobig.Int
	power    int // P = 2r^3+1 (bad: power 3) or P = 2r+1 (good: control, power 1)
	zeroP    bool
	group    *big.Int
	list     []*big.Int
	pS, qS   pedersenCommit
	ppS, qpS pedersenCommit
	pqn      secret
	secrets  zkproof.SecretMerge
	ppPrime  primeProofCommit
	qpPrime  primeProofCommit
	bvCommit isSquareProofCommit
	nonce    *big.Int
	logs     []*big.Int
	coms     []*big.Int
	phiN     *big.Int
}

func (f *c17Forger) commit(rho *big.Int) {
	s, g := &f.s, f.g
	Pf := new(big.Int).Add(new(big.Int).Lsh(rho, 1), big.NewInt(1))
	qpB := big.Convert(f.qp)
	var list []*big.Int
	list, f.ppS = s.pprime.commitmentsFromSecrets(g, nil, rho)
	list, f.qpS = s.qprime.commitmentsFromSecrets(g, list, qpB)
	list, f.pS = s.p.commitmentsFromSecrets(g, list, Pf)
	list, f.qS = s.q.commitmentsFromSecrets(g, list, f.Q)
	f.pqn = newSecret(g, "pqnrel", new(big.Int).Mod(new(big.Int).Mul(f.pS.hider.secretv, f.qS.secretv.secretv), g.Order))
	bases := zkproof.NewBaseMerge(&g, &f.pS, &f.qS, &f.ppS, &f.qpS)
	f.secrets = zkproof.NewSecretMerge(&f.pS, &f.qS, &f.ppS, &f.qpS, &f.pqn)
	list = append(list, f.group, s.n)
	list = s.pPprimeRel.CommitmentsFromSecrets(g, list, &bases, &f.secrets)
	list = s.qQprimeRel.CommitmentsFromSecrets(g, list, &bases, &f.secrets)
	list = s.pQNRel.CommitmentsFromSecrets(g, list, &bases, &f.secrets)
	list, f.ppPrime = s.pprimeIsPrime.commitmentsFromSecrets(g, list, &bases, &f.secrets)
	list, f.qpPrime = s.qprimeIsPrime.commitmentsFromSecrets(g, list, &bases, &f.secrets)
	// almost-safe-prime-product commitments (own prover: the library's needs prime (P-1)/2)
	one := big.NewInt(1)
	for i := 0; i < almostSafePrimeProductIters; i++ {
		base := common.GetHashNumber(f.nonce, nil, i, uint(f.N.BitLen()))
		base.Mod(base, f.N)
		if new(big.Int).GCD(nil, nil, base, f.N).Cmp(one) != 0 {
			panic("vf: base shares a factor with N")
		}
		log := common.FastRandomBigInt(f.phiN)
		f.logs = append(f.logs, log)
		c := new(big.Int).Exp(base, log, f.N)
		f.coms = append(f.coms, c)
		list = append(list, c)
	}
	list, f.bvCommit = s.basesValid.commitmentsFromSecrets(g, list, f.P, f.Q)
	f.list = list
}

func (f *c17Forger) build(c *big.Int) (ValidKeyProof, bool) {
	s, g := &f.s, f.g
	var qs QuasiSafePrimeProductProof
	qs.SFproof = squareFreeBuildProof(f.N, f.phiN, c, big.NewInt(0))
	qs.PPPproof = primePowerProductBuildProof(f.P, f.Q, c, big.NewInt(1))
	qs.DPPproof = disjointPrimeProductBuildProof(f.P, f.Q, c, big.NewInt(2))
	qs.ASPPproof.Nonce = f.nonce
	qs.ASPPproof.Commitments = f.coms
	odd := new(gobig.Int).Exp(f.r, gobig.NewInt(int64(f.power)), nil)
	odd.Mul(odd, f.qp)
	inv2 := new(gobig.Int).ModInverse(gobig.NewInt(2), odd)
	for i := 0; i < almostSafePrimeProductIters; i++ {
		x := common.GetHashNumber(c, big.NewInt(3), i, uint(2*f.N.BitLen()))
		log := new(big.Int).Mod(new(big.Int).Add(f.logs[i], x), f.phiN)
		x1 := new(gobig.Int).Mod(log.Go(), odd)
		x2 := new(gobig.Int).Sub(odd, x1)
		x3 := new(gobig.Int).Mul(inv2, x1)
		x3.Mod(x3, odd)
		x4 := new(gobig.Int).Sub(odd, x3)
		var resp *gobig.Int
		for _, cand := range []*gobig.Int{x1, x2, x3, x4} {
			if new(gobig.Int).GCD(nil, nil, cand, odd).Cmp(gobig.NewInt(1)) != 0 {
				continue
			}
			if r := sqrtModOddPart(cand, f.r, f.qp, f.power); r != nil {
				resp = r
				break
			}
		}
		if resp == nil {
			return ValidKeyProof{}, false
		}
		qs.ASPPproof.Responses = append(qs.ASPPproof.Responses, big.Convert(resp))
	}
	proof := ValidKeyProof{
		GroupPrime:         f.group,
		PQNRel:             f.pqn.buildProof(g, c),
		PProof:             s.p.buildProof(g, c, f.pS),
		QProof:             s.q.buildProof(g, c, f.qS),
		PprimeProof:        s.pprime.buildProof(g, c, f.ppS),
		QprimeProof:        s.qprime.buildProof(g, c, f.qpS),
		Challenge:          c,
		PprimeIsPrimeProof: s.pprimeIsPrime.buildProof(g, c, f.ppPrime, &f.secrets),
		QprimeIsPrimeProof: s.qprimeIsPrime.buildProof(g, c, f.qpPrime, &f.secrets),
		QSPPproof:          qs,
		BasesValidProof:    s.basesValid.buildProof(g, c, f.bvCommit),
	}
	if f.zeroP {
		proof.PProof.Commit = big.NewInt(0)
	}
	return proof, true
}

// verifierList: what VerifyProof hashes (same calls in the same order)
func (f *c17Forger) verifierList(proof ValidKeyProof) []*big.Int {
	s, g := &f.s, f.g
	proof.PProof.setName("p")
	proof.QProof.setName("q")
	proof.PprimeProof.setName("pprime")
	proof.QprimeProof.setName("qprime")
	proof.PQNRel.setName("pqnrel")
	bases := zkproof.NewBaseMerge(&g, &proof.PProof, &proof.QProof, &proof.PprimeProof, &proof.QprimeProof)
	proofs := zkproof.NewProofMerge(&proof.PProof, &proof.QProof, &proof.PprimeProof, &proof.QprimeProof, &proof.PQNRel)
	var list []*big.Int
	list = s.pprime.commitmentsFromProof(g, list, proof.Challenge, proof.PprimeProof)
	list = s.qprime.commitmentsFromProof(g, list, proof.Challenge, proof.QprimeProof)
	list = s.p.commitmentsFromProof(g, list, proof.Challenge, proof.PProof)
	list = s.q.commitmentsFromProof(g, list, proof.Challenge, proof.QProof)
	list = append(list, proof.GroupPrime, s.n)
	list = s.pPprimeRel.CommitmentsFromProof(g, list, proof.Challenge, &bases, &proofs)
	list = s.qQprimeRel.CommitmentsFromProof(g, list, proof.Challenge, &bases, &proofs)
	list = s.pQNRel.CommitmentsFromProof(g, list, proof.Challenge, &bases, &proofs)
	list = s.pprimeIsPrime.commitmentsFromProof(g, list, proof.Challenge, &bases, &proofs, proof.PprimeIsPrimeProof)
	list = s.qprimeIsPrime.commitmentsFromProof(g, list, proof.Challenge, &bases, &proofs, proof.QprimeIsPrimeProof)
	list = quasiSafePrimeProductExtractCommitments(list, proof.QSPPproof)
	list = s.basesValid.commitmentsFromProof(g, list, proof.Challenge, proof.BasesValidProof)
	return list
}

func gprime(x *gobig.Int) bool { return x.ProbablyPrime(30) }

func TestVF_C17_ForgedWhole(t *testing.T) {
	rec := vfh.New(t, "C17")
	defer rec.Flush()
	rec.Check(func(rt *rapid.T) {
		bad := rapid.IntRange(0, 3).Draw(rt, "controlWhen3") != 3 // one control in four
		// search r, q' : P = 2r^2+1 (bad) or 2r+1 (control), Q = 2q'+1, all prime, N = 5 mod 8, N = 1 mod 3
		rstart := int64(rapid.IntRange(1<<9, 1<<12).Draw(rt, "rstart"))
		qstart := int64(rapid.IntRange(1<<26, 1<<30).Draw(rt, "qstart"))
		if !bad {
			rstart = int64(rapid.IntRange(1<<26, 1<<30).Draw(rt, "rstartGood"))
		}
		var r, qp, P, Q, N *gobig.Int
		found := false
	search:
		for a := rstart | 1; a < rstart+400000 && !found; a += 2 {
			ra := gobig.NewInt(a)
			if !gprime(ra) {
				continue
			}
			p := new(gobig.Int).Exp(ra, gobig.NewInt(3), nil) // 2r^2+1 is always divisible by 3; 2r^3+1 is not for r = 2 mod 3
			if !bad {
				p = new(gobig.Int).Set(ra)
			}
			p.Lsh(p, 1).Add(p, gobig.NewInt(1))
			if !gprime(p) {
				continue
			}
			for b := qstart | 1; b < qstart+400000; b += 2 {
				qb := gobig.NewInt(b)
				q := new(gobig.Int).Lsh(qb, 1)
				q.Add(q, gobig.NewInt(1))
				if !gprime(qb) || !gprime(q) {
					continue
				}
				n := new(gobig.Int).Mul(p, q)
				if new(gobig.Int).Mod(n, gobig.NewInt(8)).Int64() != 5 || new(gobig.Int).Mod(n, gobig.NewInt(3)).Int64() != 1 {
					continue
				}
				// the residue pattern the almost-safe-prime-product responses need
				pm, qm := new(gobig.Int).Mod(ra, gobig.NewInt(8)).Int64(), new(gobig.Int).Mod(qb, gobig.NewInt(8)).Int64()
				if pm == 1 || qm == 1 || pm == qm {
					continue
				}
				r, qp, P, Q, N = ra, qb, p, q, n
				found = true
				continue search
			}
		}
		if !found {
			rt.Skip("no modulus of the wanted shape near the drawn start values")
		}
		gi := func(x *gobig.Int) *big.Int { return big.Convert(new(gobig.Int).Set(x)) }
		var bases []*big.Int
		for i := 0; i < 2; i++ {
			x := common.FastRandomBigInt(gi(N))
			bases = append(bases, x.Mul(x, x).Mod(x, gi(N)))
		}
		pw := 1
		if bad {
			pw = 3
		}
		f := &c17Forger{s: NewValidKeyProofStructure(gi(N), bases), N: gi(N), P: gi(P), Q: gi(Q), r: r, qp: qp, power: pw, zeroP: bad}
		f.phiN = new(big.Int).Mul(new(big.Int).Sub(f.P, big.NewInt(1)), new(big.Int).Sub(f.Q, big.NewInt(1)))
		f.nonce = new(big.Int).SetBytes(rapid.SliceOfN(rapid.Byte(), 16, 16).Draw(rt, "nonce"))
		// the number the primality part is really run for: (P-1)/2 itself for the control, another
		// (genuinely prime) number of the same length for the bad key
		half := new(gobig.Int).Rsh(P, 1)
		rho := gi(half)
		if bad {
			x := new(gobig.Int).Set(half)
			for x.Add(x, gobig.NewInt(1)); !(gprime(x) && new(gobig.Int).Mod(x, gobig.NewInt(8)).Int64() != 1); x.Add(x, gobig.NewInt(1)) {
			}
			rho = gi(x)
		}
		det := map[string]any{"P": P.String(), "Q": Q.String(), "(P-1)/2": half.String(), "bad_key": bad}
		var accepted, gaveUp bool
		ps := vfh.Guard(func() {
			f.group = findSafePrime(f.N.BitLen() + 2*rangeProofEpsilon + 10)
			g, ok := zkproof.BuildGroup(f.group)
			if !ok {
				panic("vf: group")
			}
			f.g = g
			f.commit(rho)
			c1 := common.HashCommit(f.list, false)
			p1, ok := f.build(c1)
			if !ok {
				gaveUp = true
				return
			}
			cstar := common.HashCommit(f.verifierList(p1), false)
			p2, ok := f.build(cstar)
			if !ok {
				gaveUp = true
				return
			}
			accepted = f.s.VerifyProof(p2)
		})
		if ps != "" || gaveUp {
			rec.Class("forged-whole/prover-gave-up", 1)
			rec.Note("forged-whole-gave-up", fmt.Sprint(ps))
			return
		}
		rec.Case(fmt.Sprintf("forged-whole/bad-key=%v", bad), bad, "fw|"+N.String())
		rec.Sample(func() any { return det })
		if !bad {
			rec.Control(accepted, "the harness key-proof prover does not convince the verifier of a GOOD key (prover broken)")
			return
		}
		if accepted {
			rec.Fail(rt, "key-proof-accepted-for-modulus-with-non-safe-prime-factor:zero-commitment", det)
		}
	})
}
