package keyproof

// C17 - side conditions of the quasi-safe prime product proof. A modulus N = P*Q with P = 2p'+1 a
// safe prime and Q = 4k+1 (k prime) is not a product of (almost) safe primes, yet a prover who
// knows the factorisation can satisfy all four Gennaro component proofs for it (the almost-safe
// prime product part with responses computed modulo the odd part of phi(N)); only the condition
// N = 5 (mod 8) stands between such a modulus and acceptance. Control: the four component proofs
// do accept what this prover supplies.

import (
	"fmt"
	"testing"

	"github.com/privacybydesign/gabi/big"
	"github.com/privacybydesign/gabi/internal/common"
	"github.com/privacybydesign/gabi/internal/vfh"
	"pgregory.net/rapid"
)

// nextPrimeWith returns the smallest prime x >= start with x = res (mod mod) and mul*x+1 prime.
func nextPrimeWith(start int64, res, mod, mul int64) *big.Int {
	for x := start; ; x++ {
		if x%mod != res {
			continue
		}
		if big.NewInt(x).ProbablyPrime(30) && big.NewInt(mul*x+1).ProbablyPrime(30) {
			return big.NewInt(x)
		}
	}
}

func TestVF_C17_SideConditions(t *testing.T) {
	rec := vfh.New(t, "C17")
	defer rec.Flush()
	rec.Check(func(rt *rapid.T) {
		one := big.NewInt(1)
		// p' = 5 (mod 8), p' = 2 (mod 3); k = 3 (mod 4), k = 1 (mod 3)
		pprime := nextPrimeWith(int64(rapid.IntRange(1<<24, 1<<34).Draw(rt, "pstart")), 5, 24, 2)
		k := nextPrimeWith(int64(rapid.IntRange(1<<24, 1<<35).Draw(rt, "kstart")), 7, 12, 4)
		P := new(big.Int).Add(new(big.Int).Lsh(pprime, 1), one)
		Q := new(big.Int).Add(new(big.Int).Lsh(k, 2), one)
		N := new(big.Int).Mul(P, Q)
		phiN := new(big.Int).Mul(new(big.Int).Sub(P, one), new(big.Int).Sub(Q, one))
		oddPhiN := new(big.Int).Mul(pprime, k)
		factors := []*big.Int{pprime, k}
		det := map[string]any{"P": P.String(), "Q": Q.String(), "N mod 8": new(big.Int).Mod(N, big.NewInt(8)).String(), "shape": "P = 2p'+1 safe, Q = 4k+1"}
		if new(big.Int).Mod(N, big.NewInt(8)).Int64() == 5 || pprime.Cmp(k) == 0 {
			rt.Skip("not the intended shape")
		}
		var proof QuasiSafePrimeProductProof
		nonce := new(big.Int).SetBytes(rapid.SliceOfN(rapid.Byte(), 16, 16).Draw(rt, "nonce"))
		var logs, list []*big.Int
		for i := 0; i < almostSafePrimeProductIters; i++ {
			base := common.GetHashNumber(nonce, nil, i, uint(N.BitLen()))
			base.Mod(base, N)
			if new(big.Int).GCD(nil, nil, base, N).Cmp(one) != 0 {
				rt.Skip("hash-derived base shares a factor with the small modulus")
			}
			log := new(big.Int).Mod(new(big.Int).SetBytes(rapid.SliceOfN(rapid.Byte(), 24, 24).Draw(rt, fmt.Sprintf("log%d", i))), phiN)
			logs = append(logs, log)
			list = append(list, new(big.Int).Exp(base, log, N))
		}
		proof.ASPPproof.Nonce = nonce
		proof.ASPPproof.Commitments = list
		challenge := common.HashCommit(quasiSafePrimeProductExtractCommitments(nil, proof), false)
		var psig string
		psig = vfh.Guard(func() {
			proof.SFproof = squareFreeBuildProof(N, phiN, challenge, big.NewInt(0))
			proof.PPPproof = primePowerProductBuildProof(P, Q, challenge, big.NewInt(1))
			proof.DPPproof = disjointPrimeProductBuildProof(P, Q, challenge, big.NewInt(2))
		})
		if psig != "" {
			rec.Class("side-conditions/prover-gave-up(generation error at small size)", 1)
			return
		}
		inv2 := new(big.Int).ModInverse(big.NewInt(2), oddPhiN)
		for i := 0; i < almostSafePrimeProductIters; i++ {
			x := common.GetHashNumber(challenge, big.NewInt(3), i, uint(2*N.BitLen()))
			log := new(big.Int).Mod(new(big.Int).Add(logs[i], x), phiN)
			x1 := new(big.Int).Mod(log, oddPhiN)
			x2 := new(big.Int).Sub(oddPhiN, x1)
			x3 := new(big.Int).Mod(new(big.Int).Mul(inv2, x1), oddPhiN)
			x4 := new(big.Int).Sub(oddPhiN, x3)
			var resp *big.Int
			for _, cand := range []*big.Int{x1, x2, x3, x4} {
				if r, ok := common.ModSqrt(cand, factors); ok {
					resp = r
					break
				}
			}
			if resp == nil {
				rec.Class("side-conditions/prover-gave-up(no response)", 1)
				return
			}
			proof.ASPPproof.Responses = append(proof.ASPPproof.Responses, resp)
		}
		rec.Case("side-conditions/safe-prime-times-(4k+1)", true, "sc|"+N.String())
		rec.Sample(func() any { return det })
		var parts, whole bool
		if ps := vfh.Guard(func() {
			parts = quasiSafePrimeProductVerifyStructure(proof) &&
				squareFreeVerifyProof(N, challenge, big.NewInt(0), proof.SFproof) &&
				primePowerProductVerifyProof(N, challenge, big.NewInt(1), proof.PPPproof) &&
				disjointPrimeProductVerifyProof(N, challenge, big.NewInt(2), proof.DPPproof) &&
				almostSafePrimeProductVerifyProof(N, challenge, big.NewInt(3), proof.ASPPproof)
			whole = quasiSafePrimeProductVerifyProof(N, challenge, proof)
		}); ps != "" {
			rec.Fail(rt, ps+":side-conditions", det)
			return
		}
		rec.Control(parts, "the factorisation-aware prover does not satisfy the four component proofs (harness prover broken)")
		if whole {
			rec.Fail(rt, "bad-modulus-accepted:safe-prime-times-(4k+1)", det)
		}
	})
}
