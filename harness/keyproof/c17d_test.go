package keyproof

// C17 - the "all bases are squares" part of the key proof as a component: generated moduli and base
// counts from 0 up to more bases than any issued key has (the lookup tables behind the proof change
// their strategy with the number of parts), true statements honestly proven, JSON round trip, every
// base in turn replaced by another square / a non-square, base lists shortened and extended.

import (
	"encoding/json"
	"fmt"
	gobig "math/big"
	"testing"

	"github.com/privacybydesign/gabi/big"
	"github.com/privacybydesign/gabi/internal/common"
	"github.com/privacybydesign/gabi/internal/vfh"
	"pgregory.net/rapid"
)

func TestVF_C17_BasesValid(t *testing.T) {
	rec := vfh.New(t, "C17")
	defer rec.Flush()
	g := c17G()
	rec.Check(func(rt *rapid.T) {
		bits := rapid.IntRange(24, 40).Draw(rt, "bits")
		P, Q := c17SafePrimePair(rt, bits)
		gi := func(x *gobig.Int) *big.Int { return big.Convert(new(gobig.Int).Set(x)) }
		N := gi(new(gobig.Int).Mul(P, Q))
		nb := rapid.IntRange(0, 24).Draw(rt, "bases")
		if rapid.IntRange(0, 3).Draw(rt, "edge") == 0 {
			nb = rapid.SampledFrom([]int{0, 1, 6, 7, 8, 9, 15, 16, 17}).Draw(rt, "basesEdge")
		}
		var bases []*big.Int
		for len(bases) < nb {
			x := new(big.Int).SetBytes(rapid.SliceOfN(rapid.Byte(), 3, 6).Draw(rt, fmt.Sprintf("root%d", len(bases))))
			x.Mod(x, N)
			if x.Sign() == 0 || new(big.Int).GCD(nil, nil, x, N).Cmp(big.NewInt(1)) != 0 {
				continue
			}
			bases = append(bases, x.Mul(x, x).Mod(x, N))
		}
		challenge := new(big.Int).SetBytes(rapid.SliceOfN(rapid.Byte(), 32, 32).Draw(rt, "challenge"))
		det := map[string]any{"P": P.String(), "Q": Q.String(), "bases": nb}
		s := newIsSquareProofStructure(N, bases)
		var listSecret []*big.Int
		var proof IsSquareProof
		if ps := vfh.Guard(func() {
			var commit isSquareProofCommit
			listSecret, commit = s.commitmentsFromSecrets(g, []*big.Int{}, gi(P), gi(Q))
			proof = s.buildProof(g, challenge, commit)
		}); ps != "" {
			rec.Fail(rt, ps+":bases-valid-prover", det)
			return
		}
		js, err := json.Marshal(proof)
		if err != nil {
			rec.Fail(rt, "bases-valid-proof-marshal-error", det)
			return
		}
		verify := func(bs []*big.Int) (bool, string) {
			var p IsSquareProof
			if json.Unmarshal(js, &p) != nil {
				return false, ""
			}
			var ok bool
			ps := vfh.Guard(func() {
				st := newIsSquareProofStructure(N, bs)
				if !st.verifyProofStructure(p) {
					return
				}
				l := st.commitmentsFromProof(g, []*big.Int{}, challenge, p)
				ok = common.HashCommit(l, false).Cmp(common.HashCommit(listSecret, false)) == 0
			})
			return ok, ps
		}
		rec.Case(fmt.Sprintf("bases-valid/honest/bases=%d", nb), true, fmt.Sprintf("bv|%s|%s|%d", P, Q, nb))
		rec.Sample(func() any { return det })
		if ok, ps := verify(bases); ps != "" || !ok {
			rec.Fail(rt, "honest-bases-valid-proof-rejected"+ps, det)
			return
		}
		if nb == 0 {
			return
		}
		// another base list
		i := rapid.IntRange(0, nb-1).Draw(rt, "pos")
		other := append([]*big.Int{}, bases...)
		other[i] = new(big.Int).Mod(new(big.Int).Mul(bases[i], big.NewInt(4)), N)
		for _, alt := range []struct {
			name string
			bs   []*big.Int
		}{{"one-base-replaced-by-another-square", other}, {"last-base-removed", bases[:nb-1]}, {"base-appended", append(append([]*big.Int{}, bases...), big.NewInt(9))}} {
			rec.Case("bases-valid/other-base-list/"+alt.name, true, fmt.Sprintf("bvo|%s|%s|%d|%d|%s", P, Q, nb, i, alt.name))
			if ok, ps := verify(alt.bs); ps != "" || ok {
				det["alteration"] = alt.name
				rec.Fail(rt, "bases-valid-proof-accepted-for-other-base-list"+ps, det)
				return
			}
		}
	})
}

// TestVF_C17_PrimeModulus: the disjoint-prime-product component on moduli that are a single prime.
// For a Fermat prime N = 2^k + 1 the odd part of N-1 is 1, so a prover who simply echoes the
// hash-derived challenges satisfies the response equation; the component has to recognise the prime.
// (A product of two primes is the control: the honest prover is accepted.)
func TestVF_C17_PrimeModulus(t *testing.T) {
	rec := vfh.New(t, "C17")
	defer rec.Flush()
	rec.Check(func(rt *rapid.T) {
		N := big.NewInt(int64(rapid.SampledFrom([]int{5, 17, 257, 65537}).Draw(rt, "fermat")))
		challenge := new(big.Int).SetBytes(rapid.SliceOfN(rapid.Byte(), 32, 32).Draw(rt, "challenge"))
		index := big.NewInt(int64(rapid.IntRange(0, 5).Draw(rt, "index")))
		var proof DisjointPrimeProductProof
		for i := 0; i < disjointPrimeProductIters; i++ {
			x := common.GetHashNumber(challenge, index, i, uint(N.BitLen()))
			x.Mod(x, N)
			proof.Responses = append(proof.Responses, x)
		}
		var ok bool
		ps := vfh.Guard(func() { ok = disjointPrimeProductVerifyProof(N, challenge, index, proof) })
		rec.Case("gennaro/single-prime-modulus/echo-prover", true, fmt.Sprintf("pm|%s|%s|%s", N, challenge, index))
		rec.Sample(func() any { return map[string]any{"N": N.String(), "strategy": "responses echo the challenges"} })
		if ps != "" {
			rec.Fail(rt, ps+":disjoint-prime-product:prime-modulus", map[string]any{"N": N.String()})
			return
		}
		if ok {
			rec.Fail(rt, "bad-modulus-accepted:single-prime(disjoint-prime-product)", map[string]any{"N": N.String()})
			return
		}
		// control: an honest proof for a product of two primes
		P, Q := c17SafePrimePair(rt, rapid.IntRange(24, 32).Draw(rt, "bits"))
		gi := func(x *gobig.Int) *big.Int { return big.Convert(new(gobig.Int).Set(x)) }
		var hp DisjointPrimeProductProof
		var hok bool
		if ps := vfh.Guard(func() {
			hp = disjointPrimeProductBuildProof(gi(P), gi(Q), challenge, index)
			hok = disjointPrimeProductVerifyProof(gi(new(gobig.Int).Mul(P, Q)), challenge, index, hp)
		}); ps != "" {
			rec.Class("gennaro-rare-generation-error(2/p)", 1)
			return
		}
		rec.Control(hok, "honest disjoint-prime-product proof rejected")
	})
}
