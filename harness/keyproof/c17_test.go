package keyproof

// C17 - Key-correctness proofs accept good keys and reject bad ones.
// Tier A: every Camenisch component as one Fiat-Shamir round over generated operands:
//   (i) true statement + honest prover => accepted; (ii) every leaf of the proof's JSON altered
//   (+1, zero, swap, remove) => rejected; (iii) false statements proven with the honest algorithm
//   on a false witness => rejected.
//   The four Gennaro proofs: good moduli accepted; moduli of every forbidden shape with cheating
//   provers that know the factorisation (and may grind the challenge) rejected.
// Tier B: whole proofs for fresh small keys: verify, JSON round trip, other modulus / base list,
//   sampled leaf alterations (stratified by leaf kind).

import (
	"encoding/json"
	"fmt"
	gobig "math/big"
	"reflect"
	"sort"
	"strings"
	"sync"
	"testing"

	"github.com/privacybydesign/gabi/big"
	"github.com/privacybydesign/gabi/internal/common"
	"github.com/privacybydesign/gabi/internal/vfh"
	"github.com/privacybydesign/gabi/safeprime"
	"github.com/privacybydesign/gabi/zkproof"
	"pgregory.net/rapid"
)

var (
	c17GroupOnce sync.Once
	c17Group     zkproof.Group
)

func c17G() zkproof.Group {
	c17GroupOnce.Do(func() {
		p, _ := new(big.Int).SetString(vfh.SafePrimes256[0], 10)
		g, ok := zkproof.BuildGroup(p)
		if !ok {
			panic("fixture group rejected")
		}
		c17Group = g
	})
	return c17Group
}

type c17Bundle struct {
	Challenge *big.Int
	Operands  map[string]*PedersenProof
	Proof     json.RawMessage
}

// c17Component adapts one component to the generic Fiat-Shamir round.
type c17Component struct {
	name   string
	commit func(g zkproof.Group, list []*big.Int, bases zkproof.BaseLookup, secrets zkproof.SecretLookup) ([]*big.Int, func(c *big.Int) any)
	verify func(g zkproof.Group, list []*big.Int, c *big.Int, bases zkproof.BaseLookup, proofs zkproof.ProofLookup, raw []byte) ([]*big.Int, bool)
}

func adapt[S any, C any, P any](name string, s *S,
	commit func(s *S, g zkproof.Group, list []*big.Int, bases zkproof.BaseLookup, secrets zkproof.SecretLookup) ([]*big.Int, C),
	build func(s *S, g zkproof.Group, c *big.Int, cm C, secrets zkproof.SecretLookup) P,
	vstruct func(s *S, c *big.Int, p P) bool,
	rebuild func(s *S, g zkproof.Group, list []*big.Int, c *big.Int, bases zkproof.BaseLookup, proofs zkproof.ProofLookup, p P) []*big.Int,
) c17Component {
	return c17Component{
		name: name,
		commit: func(g zkproof.Group, list []*big.Int, bases zkproof.BaseLookup, secrets zkproof.SecretLookup) ([]*big.Int, func(c *big.Int) any) {
			l, cm := commit(s, g, list, bases, secrets)
			return l, func(c *big.Int) any { return build(s, g, c, cm, secrets) }
		},
		verify: func(g zkproof.Group, list []*big.Int, c *big.Int, bases zkproof.BaseLookup, proofs zkproof.ProofLookup, raw []byte) ([]*big.Int, bool) {
			var p P
			if err := json.Unmarshal(raw, &p); err != nil {
				return nil, false
			}
			if !vstruct(s, c, p) {
				return nil, false
			}
			// the frame every component is verified in (ValidKeyProofStructure.VerifyProof) refuses
			// proofs with a Pedersen commitment outside the group; this stand-in does the same
			if !pedersenCommitmentsInGroup(reflect.ValueOf(p), g) {
				return nil, false
			}
			return rebuild(s, g, list, c, bases, proofs, p), true
		},
	}
}

type c17Operand struct {
	name string
	val  *big.Int
}

// c17Prove runs the prover side of one round; returns the bundle JSON.
func c17Prove(comp c17Component, ops []c17Operand) ([]byte, error) {
	g := c17G()
	var list []*big.Int
	structs := map[string]*pedersenStructure{}
	commits := map[string]*pedersenCommit{}
	baseParts := []zkproof.BaseLookup{&g}
	var secretParts []zkproof.SecretLookup
	for _, o := range ops {
		ps := newPedersenStructure(o.name)
		var pc pedersenCommit
		list, pc = ps.commitmentsFromSecrets(g, list, o.val)
		structs[o.name], commits[o.name] = &ps, &pc
		baseParts = append(baseParts, &pc)
		secretParts = append(secretParts, &pc)
	}
	bases := zkproof.NewBaseMerge(baseParts...)
	secrets := zkproof.NewSecretMerge(secretParts...)
	list, finish := comp.commit(g, list, &bases, &secrets)
	c := common.HashCommit(list, false)
	b := c17Bundle{Challenge: c, Operands: map[string]*PedersenProof{}}
	for _, o := range ops {
		pp := structs[o.name].buildProof(g, c, *commits[o.name])
		b.Operands[o.name] = &pp
	}
	raw, err := json.Marshal(finish(c))
	if err != nil {
		return nil, err
	}
	b.Proof = raw
	return json.Marshal(b)
}

// c17Verify is the verifier side: structure checks, rebuilt commitments, hash == challenge.
func c17Verify(comp c17Component, names []string, doc []byte) (accept bool) {
	list, challenge, ok := c17VerifierList(comp, names, doc)
	return ok && common.HashCommit(list, false).Cmp(challenge) == 0
}

// c17VerifierList: the commitments the verifier rebuilds from a bundle (what it then hashes)
func c17VerifierList(comp c17Component, names []string, doc []byte) ([]*big.Int, *big.Int, bool) {
	g := c17G()
	var b c17Bundle
	if err := json.Unmarshal(doc, &b); err != nil || b.Challenge == nil || len(b.Operands) != len(names) {
		return nil, nil, false
	}
	var list []*big.Int
	baseParts := []zkproof.BaseLookup{&g}
	var proofParts []zkproof.ProofLookup
	for _, n := range names {
		pp := b.Operands[n]
		ps := newPedersenStructure(n)
		if pp == nil || !ps.verifyProofStructure(*pp) || !pedersenCommitmentsInGroup(reflect.ValueOf(*pp), g) {
			return nil, nil, false
		}
		pp.setName(n)
		list = ps.commitmentsFromProof(g, list, b.Challenge, *pp)
		baseParts = append(baseParts, pp)
		proofParts = append(proofParts, pp)
	}
	bases := zkproof.NewBaseMerge(baseParts...)
	proofs := zkproof.NewProofMerge(proofParts...)
	list, ok := comp.verify(g, list, b.Challenge, &bases, &proofs, b.Proof)
	if !ok {
		return nil, nil, false
	}
	return list, b.Challenge, true
}

// c17ZeroCheat: a prover for a FALSE statement who replaces the Pedersen commitments of the named
// operands by 0. A commitment that is not a unit of the group makes every relation it occurs in
// collapse (0^x = 0, no inverse), so that the rebuilt commitments of those relations no longer depend
// on the challenge. The prover runs the honest algorithm on the false witness with the zeros in place,
// asks what the verifier would rebuild, hashes that, and answers with it. Returns whether the
// verifier accepts.
func c17ZeroCheat(comp c17Component, ops []c17Operand, zero map[string]bool) (accepted bool, err error) {
	g := c17G()
	var list []*big.Int
	structs := map[string]*pedersenStructure{}
	commits := map[string]*pedersenCommit{}
	baseParts := []zkproof.BaseLookup{&g}
	var secretParts []zkproof.SecretLookup
	for _, o := range ops {
		ps := newPedersenStructure(o.name)
		var pc pedersenCommit
		list, pc = ps.commitmentsFromSecrets(g, list, o.val)
		structs[o.name], commits[o.name] = &ps, &pc
		baseParts = append(baseParts, &pc)
		secretParts = append(secretParts, &pc)
	}
	bases := zkproof.NewBaseMerge(baseParts...)
	secrets := zkproof.NewSecretMerge(secretParts...)
	list, finish := comp.commit(g, list, &bases, &secrets)
	bundle := func(c *big.Int) ([]byte, error) {
		b := c17Bundle{Challenge: c, Operands: map[string]*PedersenProof{}}
		for _, o := range ops {
			pp := structs[o.name].buildProof(g, c, *commits[o.name])
			if zero[o.name] {
				pp.Commit = big.NewInt(0)
			}
			b.Operands[o.name] = &pp
		}
		raw, err := json.Marshal(finish(c))
		if err != nil {
			return nil, err
		}
		b.Proof = raw
		return json.Marshal(b)
	}
	c1 := common.HashCommit(list, false)
	d1, err := bundle(c1)
	if err != nil {
		return false, err
	}
	l1, _, ok := c17VerifierList(comp, names(ops), d1)
	if !ok {
		return false, nil
	}
	cstar := common.HashCommit(l1, false)
	d2, err := bundle(cstar)
	if err != nil {
		return false, err
	}
	return c17Verify(comp, names(ops), d2), nil
}

func names(ops []c17Operand) []string {
	out := make([]string, len(ops))
	for i, o := range ops {
		out[i] = o.name
	}
	return out
}

// ---- component instances with generators of true and false statements

type c17Case struct {
	comp  c17Component
	ops   []c17Operand
	truth bool
	class string
}

func smallPrime(rt *rapid.T, label string, bits int) int64 {
	v := int64(rapid.IntRange(1<<(bits-1), 1<<bits-1).Draw(rt, label)) | 1
	for !gobig.NewInt(v).ProbablyPrime(20) {
		v += 2
	}
	return v
}

func c17GenCase(rt *rapid.T, kind string, wantTrue bool) c17Case {
	bi := func(x int64) *big.Int { return big.NewInt(x) }
	switch kind {
	case "addition":
		n := int64(rapid.IntRange(3, 1000).Draw(rt, "n"))
		a, b := int64(rapid.IntRange(0, int(n)-1).Draw(rt, "a")), int64(rapid.IntRange(0, int(n)-1).Draw(rt, "b"))
		r := (a + b) % n
		cls := "true"
		if !wantTrue {
			r, cls = (r+1+int64(rapid.IntRange(0, int(n)-2).Draw(rt, "off")))%n, "wrong-sum"
		}
		s := newAdditionProofStructure("a1", "a2", "mod", "result", 3)
		comp := adapt("addition", &s,
			func(s *additionProofStructure, g zkproof.Group, l []*big.Int, b zkproof.BaseLookup, sc zkproof.SecretLookup) ([]*big.Int, additionProofCommit) {
				return s.commitmentsFromSecrets(g, l, b, sc)
			},
			func(s *additionProofStructure, g zkproof.Group, c *big.Int, cm additionProofCommit, sc zkproof.SecretLookup) AdditionProof {
				return s.buildProof(g, c, cm, sc)
			},
			func(s *additionProofStructure, _ *big.Int, p AdditionProof) bool { return s.verifyProofStructure(p) },
			func(s *additionProofStructure, g zkproof.Group, l []*big.Int, c *big.Int, b zkproof.BaseLookup, pr zkproof.ProofLookup, p AdditionProof) []*big.Int {
				return s.commitmentsFromProof(g, l, c, b, pr, p)
			})
		return c17Case{comp, []c17Operand{{"a1", bi(a)}, {"a2", bi(b)}, {"mod", bi(n)}, {"result", bi(r)}}, wantTrue, cls}
	case "multiplication":
		n := int64(rapid.IntRange(3, 1000).Draw(rt, "n"))
		a, b := int64(rapid.IntRange(0, int(n)-1).Draw(rt, "a")), int64(rapid.IntRange(0, int(n)-1).Draw(rt, "b"))
		r := (a * b) % n
		cls := "true"
		if !wantTrue {
			r, cls = (r+1+int64(rapid.IntRange(0, int(n)-2).Draw(rt, "off")))%n, "wrong-product"
		}
		s := newMultiplicationProofStructure("m1", "m2", "mod", "result", 12)
		comp := adapt("multiplication", &s,
			func(s *multiplicationProofStructure, g zkproof.Group, l []*big.Int, b zkproof.BaseLookup, sc zkproof.SecretLookup) ([]*big.Int, multiplicationProofCommit) {
				return s.commitmentsFromSecrets(g, l, b, sc)
			},
			func(s *multiplicationProofStructure, g zkproof.Group, c *big.Int, cm multiplicationProofCommit, sc zkproof.SecretLookup) MultiplicationProof {
				return s.buildProof(g, c, cm, sc)
			},
			func(s *multiplicationProofStructure, _ *big.Int, p MultiplicationProof) bool {
				return s.verifyProofStructure(p)
			},
			func(s *multiplicationProofStructure, g zkproof.Group, l []*big.Int, c *big.Int, b zkproof.BaseLookup, pr zkproof.ProofLookup, p MultiplicationProof) []*big.Int {
				return s.commitmentsFromProof(g, l, c, b, pr, p)
			})
		return c17Case{comp, []c17Operand{{"m1", bi(a)}, {"m2", bi(b)}, {"mod", bi(n)}, {"result", bi(r)}}, wantTrue, cls}
	case "expstep", "expstepA", "expstepB":
		n := int64(rapid.IntRange(3, 500).Draw(rt, "n"))
		pre, mul := int64(rapid.IntRange(1, int(n)-1).Draw(rt, "pre")), int64(rapid.IntRange(1, int(n)-1).Draw(rt, "mul"))
		bit := int64(rapid.IntRange(0, 1).Draw(rt, "bit"))
		if kind == "expstepA" {
			bit = 0
		}
		if kind == "expstepB" {
			bit = 1
		}
		post := pre
		if bit == 1 {
			post = pre * mul % n
		}
		cls := fmt.Sprintf("true/bit=%d", bit)
		if !wantTrue {
			switch rapid.IntRange(0, 2).Draw(rt, "falsekind") {
			case 0:
				post, cls = (post+1)%n, fmt.Sprintf("wrong-post/bit=%d", bit)
				if bit == 1 && post == pre && kind == "expstep" {
					post = (post + 1) % n // would accidentally satisfy branch A? no: bit=1 fails A
				}
			case 1:
				bit, cls = 2, "bit=2"
			default:
				// bit flipped but post left for the other branch (false unless both coincide)
				if pre*mul%n == pre {
					post, cls = (post+1)%n, "wrong-post"
				} else {
					bit, cls = 1-bit, "bit-flipped"
				}
			}
		}
		ops := []c17Operand{{"bit", bi(bit)}, {"pre", bi(pre)}, {"post", bi(post)}, {"mul", bi(mul)}, {"mod", bi(n)}}
		switch kind {
		case "expstepA":
			s := newExpStepAStructure("bit", "pre", "post")
			comp := adapt("expstepA", &s,
				func(s *expStepAStructure, g zkproof.Group, l []*big.Int, b zkproof.BaseLookup, sc zkproof.SecretLookup) ([]*big.Int, expStepACommit) {
					return s.commitmentsFromSecrets(g, l, b, sc)
				},
				func(s *expStepAStructure, g zkproof.Group, c *big.Int, cm expStepACommit, sc zkproof.SecretLookup) ExpStepAProof {
					return s.buildProof(g, c, cm, sc)
				},
				func(s *expStepAStructure, _ *big.Int, p ExpStepAProof) bool { return s.verifyProofStructure(p) },
				func(s *expStepAStructure, g zkproof.Group, l []*big.Int, c *big.Int, b zkproof.BaseLookup, _ zkproof.ProofLookup, p ExpStepAProof) []*big.Int {
					return s.commitmentsFromProof(g, l, c, b, p)
				})
			return c17Case{comp, ops[:3], wantTrue, cls}
		case "expstepB":
			s := newExpStepBStructure("bit", "pre", "post", "mul", "mod", 10)
			comp := adapt("expstepB", &s,
				func(s *expStepBStructure, g zkproof.Group, l []*big.Int, b zkproof.BaseLookup, sc zkproof.SecretLookup) ([]*big.Int, expStepBCommit) {
					return s.commitmentsFromSecrets(g, l, b, sc)
				},
				func(s *expStepBStructure, g zkproof.Group, c *big.Int, cm expStepBCommit, sc zkproof.SecretLookup) ExpStepBProof {
					return s.buildProof(g, c, cm, sc)
				},
				func(s *expStepBStructure, _ *big.Int, p ExpStepBProof) bool { return s.verifyProofStructure(p) },
				func(s *expStepBStructure, g zkproof.Group, l []*big.Int, c *big.Int, b zkproof.BaseLookup, _ zkproof.ProofLookup, p ExpStepBProof) []*big.Int {
					return s.commitmentsFromProof(g, l, c, b, p)
				})
			return c17Case{comp, ops, wantTrue, cls}
		default:
			s := newExpStepStructure("bit", "pre", "post", "mul", "mod", 10)
			comp := adapt("expstep", &s,
				func(s *expStepStructure, g zkproof.Group, l []*big.Int, b zkproof.BaseLookup, sc zkproof.SecretLookup) ([]*big.Int, expStepCommit) {
					return s.commitmentsFromSecrets(g, l, b, sc)
				},
				func(s *expStepStructure, g zkproof.Group, c *big.Int, cm expStepCommit, sc zkproof.SecretLookup) ExpStepProof {
					return s.buildProof(g, c, cm, sc)
				},
				func(s *expStepStructure, c *big.Int, p ExpStepProof) bool { return s.verifyProofStructure(c, p) },
				func(s *expStepStructure, g zkproof.Group, l []*big.Int, c *big.Int, b zkproof.BaseLookup, _ zkproof.ProofLookup, p ExpStepProof) []*big.Int {
					return s.commitmentsFromProof(g, l, c, b, p)
				})
			return c17Case{comp, ops, wantTrue, cls}
		}
	case "exp":
		// the structure's bitlen bounds base, exponent, modulus and all intermediate powers alike (the
		// callers pass the bit length of the modulus): operands are drawn below 2^bitlen
		bitlen := uint(rapid.IntRange(3, 9).Draw(rt, "bitlen"))
		n := int64(rapid.IntRange(3, 1<<bitlen-1).Draw(rt, "n"))
		a := int64(rapid.IntRange(1, int(n)-1).Draw(rt, "a"))
		e := int64(rapid.IntRange(0, 1<<bitlen-1).Draw(rt, "e"))
		r := new(gobig.Int).Exp(gobig.NewInt(a), gobig.NewInt(e), gobig.NewInt(n)).Int64()
		cls := fmt.Sprintf("true/bitlen=%d", bitlen)
		if !wantTrue {
			r, cls = (r+1+int64(rapid.IntRange(0, int(n)-2).Draw(rt, "off")))%n, "wrong-power"
		}
		if r == n-1 {
			// the exponentiation proof's convention (its prover rewrites intermediate values equal to
			// mod-1, and its caller, the primality proof, commits to the literal -1): a result that is
			// -1 modulo n is presented as the integer -1
			r = -1
			if wantTrue {
				cls += "/result=-1"
			}
		}
		s := newExpProofStructure("a", "b", "n", "r", bitlen)
		comp := adapt("exp", &s,
			func(s *expProofStructure, g zkproof.Group, l []*big.Int, b zkproof.BaseLookup, sc zkproof.SecretLookup) ([]*big.Int, expProofCommit) {
				return s.commitmentsFromSecrets(g, l, b, sc)
			},
			func(s *expProofStructure, g zkproof.Group, c *big.Int, cm expProofCommit, sc zkproof.SecretLookup) ExpProof {
				return s.buildProof(g, c, cm, sc)
			},
			func(s *expProofStructure, c *big.Int, p ExpProof) bool { return s.verifyProofStructure(c, p) },
			func(s *expProofStructure, g zkproof.Group, l []*big.Int, c *big.Int, b zkproof.BaseLookup, pr zkproof.ProofLookup, p ExpProof) []*big.Int {
				return s.commitmentsFromProof(g, l, c, b, pr, p)
			})
		return c17Case{comp, []c17Operand{{"a", bi(a)}, {"b", bi(e)}, {"n", bi(n)}, {"r", bi(r)}}, wantTrue, cls}
	case "prime":
		bits := rapid.IntRange(5, 9).Draw(rt, "bits")
		v := smallPrime(rt, "p", bits)
		cls := fmt.Sprintf("true/bits=%d", bits)
		if !wantTrue {
			// The proof is ONE round of an Euler test with a hash-derived base; its documented role
			// is to separate primes from prime powers (almost-safe-prime products give p = 2q^k+1).
			// For q^2 the fraction of passing bases is 1/q: use q of 21..22 bits (error <= 2^-20).
			q := smallPrime(rt, "q", 22)
			v, cls = q*q, "prime-square(q~2^22)"
		}
		s := newPrimeProofStructure("p", uint(gobig.NewInt(v).BitLen()))
		comp := adapt("prime", &s,
			func(s *primeProofStructure, g zkproof.Group, l []*big.Int, b zkproof.BaseLookup, sc zkproof.SecretLookup) ([]*big.Int, primeProofCommit) {
				return s.commitmentsFromSecrets(g, l, b, sc)
			},
			func(s *primeProofStructure, g zkproof.Group, c *big.Int, cm primeProofCommit, sc zkproof.SecretLookup) PrimeProof {
				return s.buildProof(g, c, cm, sc)
			},
			func(s *primeProofStructure, c *big.Int, p PrimeProof) bool { return s.verifyProofStructure(c, p) },
			func(s *primeProofStructure, g zkproof.Group, l []*big.Int, c *big.Int, b zkproof.BaseLookup, pr zkproof.ProofLookup, p PrimeProof) []*big.Int {
				return s.commitmentsFromProof(g, l, c, b, pr, p)
			})
		return c17Case{comp, []c17Operand{{"p", bi(v)}}, wantTrue, cls}
	}
	panic("unknown component " + kind)
}

var c17Kinds = []string{"addition", "multiplication", "expstepA", "expstepB", "expstep", "exp", "prime"}

func TestVF_C17_Components(t *testing.T) {
	rec := vfh.New(t, "C17")
	defer rec.Flush()
	kinds := c17Kinds
	rec.Check(func(rt *rapid.T) {
		kind := rapid.SampledFrom(kinds).Draw(rt, "component")
		// ---- (i) true statement, honest prover
		cs := c17GenCase(rt, kind, true)
		det := func(what string) map[string]any {
			vals := map[string]string{}
			for _, o := range cs.ops {
				vals[o.name] = o.val.String()
			}
			return map[string]any{"component": kind, "class": cs.class, "operands": vals, "what": what}
		}
		var doc []byte
		var err error
		if ps := vfh.Guard(func() { doc, err = c17Prove(cs.comp, cs.ops) }); ps != "" || err != nil {
			if strings.Contains(ps, "Generated a outside of Z") {
				// documented rare generation error of the primality proof (the derived base is 0 mod p,
				// probability 1/p - noticeable only at the tiny operand sizes used here)
				rec.Class("prime-proof-rare-generation-error(1/p)", 1)
				return
			}
			rec.Fail(rt, "honest-component-proof-fails:"+kind, det(fmt.Sprint(ps, err)))
			return
		}
		var ok bool
		if ps := vfh.Guard(func() { ok = c17Verify(cs.comp, names(cs.ops), doc) }); ps != "" {
			rec.Fail(rt, ps+":verify:"+kind, det("verify honest proof"))
			return
		}
		rec.Case("honest/"+kind+"/"+cs.class, true, fmt.Sprintf("h|%s|%v", kind, cs.ops))
		rec.Sample(func() any { return det("honest proof of a true statement") })
		if !ok {
			rec.Fail(rt, "honest-component-proof-rejected:"+kind, det(""))
			return
		}
		// ---- (ii) leaf alterations
		nl := vfh.JSONLeafCount(doc)
		budget := rec.N(12, 60)
		step := 1
		if nl > budget {
			step = nl/budget + 1
		}
		off := 0
		if step > 1 {
			off = rapid.IntRange(0, step-1).Draw(rt, "leafOffset")
		}
		modes := []string{"+1", "zero", "swap", "remove"}
		for i := off; i < nl; i += step {
			mode := modes[(i/step)%len(modes)]
			if i%7 == 0 {
				mode = "+1"
			}
			alt, path, changed := vfh.JSONAlterLeaf(doc, i, mode)
			if !changed || alt == nil {
				continue
			}
			var acc bool
			ps := vfh.Guard(func() { acc = c17Verify(cs.comp, names(cs.ops), alt) })
			lk := vfh.JSONLeafKind(path)
			rec.Case("altered-leaf/"+kind, true, fmt.Sprintf("l|%s|%s|%s|%v", kind, path, mode, cs.ops))
			rec.Class("leaf-kind/"+kind+lk, 1)
			if ps != "" {
				rec.Fail(rt, ps+":altered-leaf:"+kind, det(fmt.Sprintf("%s %s", mode, path)))
				return
			}
			if acc {
				rec.Fail(rt, "altered-component-proof-accepted:"+kind+":"+lk, det(fmt.Sprintf("%s %s", mode, path)))
				return
			}
		}
		// ---- (iii) false statement, honest algorithm on a false witness
		if kind == "prime" {
			// No false-statement prover for the primality proof: the honest algorithm searches for a
			// base whose Euler symbol is -1 and never terminates on a prime power (none exists),
			// and other composites are outside the proof's scope (it is a single Euler round whose
			// job, after the almost-safe-prime-product proof, is to exclude prime powers).
			return
		}
		fs := c17GenCase(rt, kind, false)
		var fdoc []byte
		ps := vfh.Guard(func() { fdoc, err = c17Prove(fs.comp, fs.ops) })
		if ps != "" || err != nil {
			rec.Class("false-statement-prover-does-not-terminate-normally/"+kind, 1)
			return
		}
		var facc bool
		if ps := vfh.Guard(func() { facc = c17Verify(fs.comp, names(fs.ops), fdoc) }); ps != "" {
			rec.Fail(rt, ps+":verify-false:"+kind, map[string]any{"component": kind, "class": fs.class})
			return
		}
		rec.Case("false-statement/"+kind+"/"+fs.class, true, fmt.Sprintf("f|%s|%v", kind, fs.ops))
		if facc {
			vals := map[string]string{}
			for _, o := range fs.ops {
				vals[o.name] = o.val.String()
			}
			rec.Fail(rt, "false-statement-accepted:"+kind+":"+fs.class, map[string]any{"component": kind, "class": fs.class, "operands": vals})
			return
		}
		// ---- (iv) the same false statement with operand commitments that are not units (zero):
		// every single operand, and all of them
		var sets []map[string]bool
		all := map[string]bool{}
		for _, o := range fs.ops {
			sets = append(sets, map[string]bool{o.name: true})
			all[o.name] = true
		}
		sets = append(sets, all)
		for _, z := range sets {
			var acc bool
			var zerr error
			if ps := vfh.Guard(func() { acc, zerr = c17ZeroCheat(fs.comp, fs.ops, z) }); ps != "" || zerr != nil {
				rec.Class("zero-commitment-prover-gave-up/"+kind, 1)
				continue
			}
			zn := ""
			for _, o := range fs.ops {
				if z[o.name] {
					zn += o.name + ","
				}
			}
			rec.Case("false-statement-with-zero-commitment/"+kind, true, fmt.Sprintf("z|%s|%v|%s", kind, fs.ops, zn))
			if acc {
				vals := map[string]string{}
				for _, o := range fs.ops {
					vals[o.name] = o.val.String()
				}
				rec.Fail(rt, "false-statement-accepted:zero-commitment:"+kind, map[string]any{"component": kind, "class": fs.class, "operands": vals, "commitments_set_to_zero": zn})
				return
			}
		}
	})
}

// ---------- Gennaro proofs on good and bad moduli

type c17Modulus struct {
	n       *gobig.Int
	factors []*gobig.Int // prime factors with multiplicity
	shape   string
}

func mul(xs ...*gobig.Int) *gobig.Int {
	r := gobig.NewInt(1)
	for _, x := range xs {
		r.Mul(r, x)
	}
	return r
}

func c17SafePrimePair(rt *rapid.T, bits int) (*gobig.Int, *gobig.Int) {
	for {
		p, err := safeprime.Generate(bits, nil)
		if err != nil {
			panic(err)
		}
		q, err := safeprime.Generate(bits, nil)
		if err != nil {
			panic(err)
		}
		if CanProve(new(big.Int).Rsh(p, 1), new(big.Int).Rsh(q, 1)) {
			return p.Go(), q.Go()
		}
	}
}

func rndPrime(rt *rapid.T, label string, bits int, cond func(p *gobig.Int) bool) *gobig.Int {
	b := rapid.SliceOfN(rapid.Byte(), (bits+7)/8, (bits+7)/8).Draw(rt, label)
	p := new(gobig.Int).SetBytes(b)
	for p.BitLen() > bits {
		p.Rsh(p, 1)
	}
	p.SetBit(p, bits-1, 1)
	p.SetBit(p, 0, 1)
	for !(p.ProbablyPrime(24) && (cond == nil || cond(p))) {
		p.Add(p, gobig.NewInt(2))
	}
	return p
}

// phi and the odd part of phi for a factor list
func phiOf(factors []*gobig.Int) *gobig.Int {
	cnt := map[string]int{}
	val := map[string]*gobig.Int{}
	for _, f := range factors {
		cnt[f.String()]++
		val[f.String()] = f
	}
	phi := gobig.NewInt(1)
	for k, c := range cnt {
		p := val[k]
		phi.Mul(phi, new(gobig.Int).Sub(p, gobig.NewInt(1)))
		for i := 1; i < c; i++ {
			phi.Mul(phi, p)
		}
	}
	return phi
}

// rootOrRandom returns an e-th root of x modulo n when the harness can compute one from the
// factorisation (gcd(e, phi) = 1 after removing the common part, verified), else a random unit.
func rootOrRandom(x, e, n, phi *gobig.Int, rnd *gobig.Int) *gobig.Int {
	// remove from phi every prime it shares with e, then invert
	red := new(gobig.Int).Set(phi)
	for {
		g := new(gobig.Int).GCD(nil, nil, red, e)
		if g.Cmp(gobig.NewInt(1)) == 0 {
			break
		}
		red.Div(red, g)
	}
	if red.Cmp(gobig.NewInt(1)) > 0 {
		if d := new(gobig.Int).ModInverse(e, red); d != nil {
			r := new(gobig.Int).Exp(x, d, n)
			if new(gobig.Int).Exp(r, e, n).Cmp(new(gobig.Int).Mod(x, n)) == 0 {
				return r
			}
		}
	}
	return new(gobig.Int).Mod(rnd, n)
}

func TestVF_C17_Gennaro(t *testing.T) {
	rec := vfh.New(t, "C17")
	defer rec.Flush()
	g := func(x *gobig.Int) *big.Int { return big.Convert(new(gobig.Int).Set(x)) }
	rec.Check(func(rt *rapid.T) {
		bits := rapid.IntRange(24, 40).Draw(rt, "bits")
		P, Q := c17SafePrimePair(rt, bits)
		N := mul(P, Q)
		pp, qp := new(gobig.Int).Rsh(P, 1), new(gobig.Int).Rsh(Q, 1)
		challenge := new(big.Int).SetBytes(rapid.SliceOfN(rapid.Byte(), 32, 32).Draw(rt, "challenge"))
		det := func(what string) map[string]any {
			return map[string]any{"P": P.String(), "Q": Q.String(), "what": what}
		}
		// ---- good modulus: all four proofs and the combination
		var qs QuasiSafePrimeProductProof
		var list []*big.Int
		var cm quasiSafePrimeProductCommit
		if ps := vfh.Guard(func() {
			list, cm = quasiSafePrimeProductBuildCommitments(nil, g(pp), g(qp))
			qs = quasiSafePrimeProductBuildProof(g(pp), g(qp), challenge, cm)
		}); ps != "" {
			if strings.Contains(ps, "Generated number not in Z_N") {
				rec.Class("gennaro-rare-generation-error(2/p)", 1) // a hash-derived challenge shares a factor with the small test modulus
				return
			}
			rec.Fail(rt, "honest-quasi-safe-prime-product-proof-fails", det(ps))
			return
		}
		_ = list
		js, _ := json.Marshal(qs)
		var back QuasiSafePrimeProductProof
		_ = json.Unmarshal(js, &back)
		rec.Case("gennaro/good-modulus", true, "gm|"+N.String())
		rec.Sample(func() any { return det("good modulus, four Gennaro proofs") })
		if !quasiSafePrimeProductVerifyStructure(back) || !quasiSafePrimeProductVerifyProof(g(N), challenge, back) {
			rec.Fail(rt, "honest-quasi-safe-prime-product-proof-rejected", det(""))
			return
		}
		// binding to challenge, modulus and index
		other := new(big.Int).Add(challenge, big.NewInt(1))
		if quasiSafePrimeProductVerifyProof(g(N), other, back) {
			rec.Fail(rt, "gennaro-proof-accepted-for-other-challenge", det(""))
			return
		}
		// every leaf of the combined proof altered (sampled)
		nl := vfh.JSONLeafCount(js)
		step := nl/rec.N(40, 150) + 1
		off := rapid.IntRange(0, step-1).Draw(rt, "leafOffset")
		for i := off; i < nl; i += step {
			alt, path, changed := vfh.JSONAlterLeaf(js, i, []string{"+1", "zero", "swap"}[(i/step)%3])
			if !changed {
				continue
			}
			var ap QuasiSafePrimeProductProof
			if json.Unmarshal(alt, &ap) != nil {
				continue
			}
			var acc bool
			ps := vfh.Guard(func() {
				// the ASPP commitments are bound through the outer challenge: compare them as the outer proof does
				same := fmt.Sprint(quasiSafePrimeProductExtractCommitments(nil, ap)) == fmt.Sprint(quasiSafePrimeProductExtractCommitments(nil, back))
				acc = quasiSafePrimeProductVerifyStructure(ap) && same && quasiSafePrimeProductVerifyProof(g(N), challenge, ap)
			})
			lk := vfh.JSONLeafKind(path)
			rec.Case("gennaro/altered-leaf", true, "gl|"+N.String()+path)
			rec.Class("leaf-kind/gennaro"+lk, 1)
			if ps != "" {
				rec.Fail(rt, ps+":gennaro-altered-leaf", det(path))
				return
			}
			if acc {
				rec.Fail(rt, "altered-gennaro-proof-accepted:"+lk, det(path))
				return
			}
		}

		// ---- bad moduli, cheating provers that know the factorisation
		rndUnit := func(label string, n *gobig.Int) *gobig.Int {
			return new(gobig.Int).SetBytes(rapid.SliceOfN(rapid.Byte(), 16, 16).Draw(rt, label))
		}
		big1024 := func(label string, cond func(*gobig.Int) bool) *gobig.Int { return rndPrime(rt, label, 14, cond) }
		type bad struct {
			shape   string
			factors []*gobig.Int
		}
		r := big1024("r", nil)
		bads := []bad{
			{"p^2*q", []*gobig.Int{r, r, Q}},
			{"p^3", []*gobig.Int{r, r, r}},
			{"p*q*r", []*gobig.Int{P, Q, r}},
			{"p^2", []*gobig.Int{P, P}},
			{"factor-below-1024", []*gobig.Int{gobig.NewInt(1021), Q}},
		}
		for _, b := range bads {
			n := mul(b.factors...)
			phi := phiOf(b.factors)
			idxSF, idxPPP, idxDPP := big.NewInt(0), big.NewInt(1), big.NewInt(2)
			grind := rec.N(300, 3000)
			accepted := ""
			for attempt := 0; attempt < grind && accepted == ""; attempt++ {
				ch := new(big.Int).Add(challenge, big.NewInt(int64(attempt)))
				// square-free: N-th roots
				var sf SquareFreeProof
				for i := 0; i < squareFreeIters; i++ {
					c := common.GetHashNumber(ch, idxSF, i, uint(n.BitLen())).Go()
					c.Mod(c, n)
					sf.Responses = append(sf.Responses, g(rootOrRandom(c, n, n, phi, rndUnit("sf", n))))
				}
				// prime power product: square roots of +-x, +-2x by brute force over the CRT (small) or random
				var ppp PrimePowerProductProof
				distinct := map[string]*gobig.Int{}
				for _, f := range b.factors {
					distinct[f.String()] = f
				}
				var fl []*big.Int
				for _, f := range distinct {
					fl = append(fl, g(f))
				}
				sort.Slice(fl, func(i, j int) bool { return fl[i].Cmp(fl[j]) < 0 })
				squareFreeN := len(distinct) == len(b.factors)
				for i := 0; i < primePowerProductIters; i++ {
					c := common.GetHashNumber(ch, idxPPP, i, uint(n.BitLen())).Go()
					c.Mod(c, n)
					resp := rndUnit("ppp", n)
					if squareFreeN {
						for _, cand := range []*gobig.Int{c, new(gobig.Int).Mod(new(gobig.Int).Neg(c), n), new(gobig.Int).Mod(new(gobig.Int).Lsh(c, 1), n), new(gobig.Int).Mod(new(gobig.Int).Neg(new(gobig.Int).Lsh(c, 1)), n)} {
							if rt2, ok := common.ModSqrt(g(cand), fl); ok {
								resp = rt2.Go()
								break
							}
						}
					}
					ppp.Responses = append(ppp.Responses, g(resp))
				}
				// disjoint prime product: oddN-th roots
				oddN := new(gobig.Int).Sub(n, gobig.NewInt(1))
				for oddN.Bit(0) == 0 {
					oddN.Rsh(oddN, 1)
				}
				var dpp DisjointPrimeProductProof
				for i := 0; i < disjointPrimeProductIters; i++ {
					c := common.GetHashNumber(ch, idxDPP, i, uint(n.BitLen())).Go()
					c.Mod(c, n)
					dpp.Responses = append(dpp.Responses, g(rootOrRandom(c, oddN, n, phi, rndUnit("dpp", n))))
				}
				var okSF, okPPP, okDPP bool
				ps := vfh.Guard(func() {
					okSF = squareFreeVerifyStructure(sf) && squareFreeVerifyProof(g(n), ch, idxSF, sf)
					okPPP = primePowerProductVerifyStructure(ppp) && primePowerProductVerifyProof(g(n), ch, idxPPP, ppp)
					okDPP = disjointPrimeProductVerifyStructure(dpp) && disjointPrimeProductVerifyProof(g(n), ch, idxDPP, dpp)
				})
				if ps != "" {
					rec.Fail(rt, ps+":gennaro-bad-modulus", map[string]any{"shape": b.shape, "N": n.String()})
					return
				}
				// which component must reject which shape
				switch b.shape {
				case "p^2*q", "p^3", "p^2":
					if okSF {
						accepted = "square-free proof accepted a modulus with a square factor"
					}
				case "p*q*r":
					if okPPP {
						accepted = "prime-power-product proof accepted a modulus with three prime factors"
					}
				}
				if b.shape == "p^2" && okSF && okDPP {
					accepted = "square-free and disjoint-prime-product proofs accepted p^2"
				}
				if attempt == 0 {
					rec.Case("gennaro/bad-modulus/"+b.shape, true, "bm|"+b.shape+"|"+n.String())
				}
			}
			rec.Class("gennaro/grinding-attempts", int64(grind))
			if accepted != "" {
				rec.Fail(rt, "gennaro-proof-accepts-bad-modulus:"+b.shape, map[string]any{"shape": b.shape, "N": n.String(), "factors": fmt.Sprint(b.factors), "what": accepted})
				return
			}
			// the combined verifier's side conditions
			if b.shape == "factor-below-1024" {
				var dummy QuasiSafePrimeProductProof
				_ = json.Unmarshal(js, &dummy)
				if quasiSafePrimeProductVerifyProof(g(n), challenge, dummy) {
					rec.Fail(rt, "gennaro-proof-accepts-bad-modulus:factor-below-1024", map[string]any{"N": n.String()})
					return
				}
			}
		}
		// N not 5 mod 8 / not 1 mod 3: honest proofs for an otherwise fine product of two primes
		for _, shape := range []string{"N-not-5-mod-8", "N-not-1-mod-3"} {
			var p2, q2 *gobig.Int
			for tries := 0; tries < 200; tries++ {
				p2 = rndPrime(rt, fmt.Sprintf("p2-%d", tries), 20, nil)
				q2 = rndPrime(rt, fmt.Sprintf("q2-%d", tries), 20, nil)
				n2 := mul(p2, q2)
				m8, m3 := new(gobig.Int).Mod(n2, gobig.NewInt(8)).Int64(), new(gobig.Int).Mod(n2, gobig.NewInt(3)).Int64()
				if (shape == "N-not-5-mod-8" && m8 != 5) || (shape == "N-not-1-mod-3" && m8 == 5 && m3 != 1) {
					break
				}
			}
			n2 := mul(p2, q2)
			var dummy QuasiSafePrimeProductProof
			_ = json.Unmarshal(js, &dummy)
			var acc bool
			ps := vfh.Guard(func() { acc = quasiSafePrimeProductVerifyProof(g(n2), challenge, dummy) })
			rec.Case("gennaro/bad-modulus/"+shape, true, "bm|"+shape+"|"+n2.String())
			if ps != "" || acc {
				rec.Fail(rt, "gennaro-proof-accepts-bad-modulus:"+shape, map[string]any{"N": n2.String(), "panic": ps})
				return
			}
		}
	})
}

// ---------- Tier B: whole proofs

func TestVF_C17_Whole(t *testing.T) {
	rec := vfh.New(t, "C17")
	defer rec.Flush()
	nkeys := rec.N(1, 2)
	for k := 0; k < nkeys; k++ {
		bits := []int{48, 64, 56, 80, 96}[(k+rec.Shard()+int(rec.Seed()))%5]
		var P, Q *big.Int
		for {
			p, err := safeprime.Generate(bits, nil)
			if err != nil {
				t.Fatal(err)
			}
			q, err := safeprime.Generate(bits, nil)
			if err != nil {
				t.Fatal(err)
			}
			if CanProve(new(big.Int).Rsh(p, 1), new(big.Int).Rsh(q, 1)) {
				P, Q = p, q
				break
			}
		}
		N := new(big.Int).Mul(P, Q)
		nb := 1 + (k+rec.Shard())%4
		var bases []*big.Int
		for i := 0; i < nb; i++ {
			x := common.FastRandomBigInt(N)
			bases = append(bases, x.Mul(x, x).Mod(x, N))
		}
		det := func(what string) map[string]any {
			return map[string]any{"P": P.String(), "Q": Q.String(), "bases": nb, "what": what}
		}
		s := NewValidKeyProofStructure(N, bases)
		var proof ValidKeyProof
		if ps := vfh.Guard(func() { proof = s.BuildProof(new(big.Int).Rsh(P, 1), new(big.Int).Rsh(Q, 1)) }); ps != "" {
			rec.FailT("valid-key-proof-cannot-be-built", det(ps))
			continue
		}
		js, err := json.Marshal(proof)
		if err != nil {
			rec.FailT("valid-key-proof-marshal-error", det(err.Error()))
			continue
		}
		verify := func(st *ValidKeyProofStructure, doc []byte) (bool, string) {
			var p ValidKeyProof
			if err := json.Unmarshal(doc, &p); err != nil {
				return false, ""
			}
			var ok bool
			ps := vfh.Guard(func() { ok = st.VerifyProof(p) })
			return ok, ps
		}
		rec.Case(fmt.Sprintf("whole/good-key/bits=%d/bases=%d", bits, nb), true, "w|"+N.String())
		rec.Sample(func() any { return det(fmt.Sprintf("whole proof, %d JSON leaves", vfh.JSONLeafCount(js))) })
		if ok, ps := verify(&s, js); !ok || ps != "" {
			rec.FailT("valid-key-proof-rejected-after-json-round-trip", det(ps))
			continue
		}
		// other modulus, other base lists
		P2, _ := safeprime.Generate(bits, nil)
		s2 := NewValidKeyProofStructure(new(big.Int).Mul(P2, Q), bases)
		wrongs := map[string]*ValidKeyProofStructure{"other-modulus": &s2}
		ob := append([]*big.Int{}, bases...)
		ob[0] = new(big.Int).Mod(new(big.Int).Mul(bases[0], big.NewInt(4)), N)
		s3 := NewValidKeyProofStructure(N, ob)
		wrongs["one-base-changed"] = &s3
		s4 := NewValidKeyProofStructure(N, append(append([]*big.Int{}, bases...), big.NewInt(9)))
		wrongs["extra-base"] = &s4
		if nb > 1 {
			s5 := NewValidKeyProofStructure(N, bases[:nb-1])
			wrongs["base-removed"] = &s5
		}
		for name, st := range wrongs {
			ok, ps := verify(st, js)
			rec.Case("whole/wrong-statement/"+name, true, "ws|"+name+N.String())
			if ps != "" {
				rec.FailT(ps+":whole:"+name, det(name))
			} else if ok {
				rec.FailT("valid-key-proof-accepted-for-"+name, det(name))
			}
		}
		// sampled leaf alterations, stratified by leaf kind
		byKind := map[string][]int{}
		for i, path := range vfh.JSONLeafPaths(js) {
			byKind[vfh.JSONLeafKind(path)] = append(byKind[vfh.JSONLeafKind(path)], i)
		}
		var kindsSorted []string
		for kd := range byKind {
			kindsSorted = append(kindsSorted, kd)
		}
		sort.Strings(kindsSorted)
		budget := rec.N(4, 30)
		rec.Note("whole_proof_leaf_kinds", len(kindsSorted))
		for j := 0; j < budget && len(kindsSorted) > 0; j++ {
			kd := kindsSorted[(j*7+k+rec.Shard()*3+int(rec.Seed()))%len(kindsSorted)]
			idxs := byKind[kd]
			i := idxs[(j*13+int(rec.Seed()))%len(idxs)]
			alt, path, changed := vfh.JSONAlterLeaf(js, i, "+1")
			if !changed {
				continue
			}
			ok, ps := verify(&s, alt)
			rec.Case("whole/altered-leaf", true, "wl|"+N.String()+path)
			rec.Class("leaf-kind/whole"+kd, 1)
			if ps != "" {
				rec.FailT(ps+":whole-altered-leaf", det(path))
			} else if ok {
				rec.FailT("altered-valid-key-proof-accepted:"+kd, det(path))
			}
		}
	}
}
