package keyproof

// C20 (S4, key-proof part): exponentiation and primality proofs (which use an internal worker
// pool) are built and verified from several goroutines at once, under the race detector.

import (
	"fmt"
	"strings"
	"sync"
	"testing"

	"github.com/privacybydesign/gabi/internal/vfh"
	"pgregory.net/rapid"
)

func TestVF_C20_KeyProofParallel(t *testing.T) {
	rec := vfh.New(t, "C20")
	defer rec.Flush()
	// draw the cases sequentially with rapid (generators only), then run them concurrently
	var cases []c17Case
	rapid.Check(t, func(rt *rapid.T) {
		if len(cases) < rec.N(8, 48) {
			cases = append(cases, c17GenCase(rt, []string{"exp", "prime", "expstep", "multiplication"}[len(cases)%4], true))
		}
	})
	_ = c17G()
	reps := rec.N(2, 16)
	for rep := 0; rep < reps; rep++ {
		var wg sync.WaitGroup
		var mu sync.Mutex
		var problems []string
		for i := range cases {
			wg.Add(1)
			go func(cs c17Case) {
				defer wg.Done()
				var doc []byte
				var err error
				if ps := vfh.Guard(func() { doc, err = c17Prove(cs.comp, cs.ops) }); ps != "" {
					if !strings.Contains(ps, "Generated a outside of Z") { // documented 1/p generation error at tiny sizes
						mu.Lock()
						problems = append(problems, ps)
						mu.Unlock()
					}
					return
				}
				if err != nil {
					mu.Lock()
					problems = append(problems, "prove: "+err.Error())
					mu.Unlock()
					return
				}
				var inner sync.WaitGroup
				for k := 0; k < 2; k++ { // two verifiers per proof, each on its own decoded copy
					inner.Add(1)
					go func() {
						defer inner.Done()
						if !c17Verify(cs.comp, names(cs.ops), doc) {
							mu.Lock()
							problems = append(problems, "concurrently built "+cs.comp.name+" proof rejected")
							mu.Unlock()
						}
					}()
				}
				inner.Wait()
			}(cases[i])
		}
		wg.Wait()
		rec.Case(fmt.Sprintf("S4-keyproof/parallel=%d", len(cases)), true, fmt.Sprintf("kp|%d|%d", rep, rec.Seed()))
		if rep == 0 {
			rec.Sample(func() any {
				return map[string]any{"script": "S4-keyproof", "parallel_proofs": len(cases), "verifiers_per_proof": 2}
			})
		}
		if len(problems) > 0 {
			rec.FailT("concurrently-built-key-proof-component-invalid", map[string]any{"what": problems[0], "count": len(problems)})
		}
	}
}
