package revocation

// Shared fixtures of the /verif harness for package revocation: the harness plays issuer.

import (
	"crypto/sha256"
	"encoding/binary"
	"testing"
	"testing/cryptotest"

	"github.com/privacybydesign/gabi/big"
	"github.com/privacybydesign/gabi/internal/common"
	"github.com/privacybydesign/gabi/internal/vfk"
	"github.com/sirupsen/logrus"
)

func init() {
	Logger = logrus.StandardLogger()
	Logger.SetLevel(logrus.FatalLevel)
}

func seedLib(t *testing.T, seed uint64) {
	cryptotest.SetGlobalRandom(t, seed)
	var s [32]byte
	binary.LittleEndian.PutUint64(s[:8], seed)
	h := sha256.Sum256(s[:])
	common.VfReseedCPRNG(&h)
}

func bi(x int64) *big.Int { return big.NewInt(x) }

var revKeys = map[int]*vfk.KeyPair{}

func revKey(i int) *vfk.KeyPair {
	if k, ok := revKeys[i]; ok {
		return k
	}
	k := vfk.Toy(i, 3, true)
	revKeys[i] = k
	return k
}

// chain is an authentic accumulator history built by the harness with the issuer key.
type chain struct {
	kp     *vfk.KeyPair
	accs   []*Accumulator       // accs[j]: accumulator after j revocations, Time = 1000+j
	saccs  []*SignedAccumulator // signature over accs[j]
	resign []*SignedAccumulator // same accumulator re-signed with Time = 2000+j
	events []*Event             // events[0] = initial event (E=1)
	nus    []*big.Int           // harness-computed accumulator values
}

func (c *chain) sign(acc *Accumulator) *SignedAccumulator {
	s, err := acc.Sign(c.kp.Sk)
	if err != nil {
		panic(err)
	}
	return s
}

func newChain(kp *vfk.KeyPair) *chain {
	upd, err := NewAccumulator(kp.Sk)
	if err != nil {
		panic(err)
	}
	acc := *upd.SignedAccumulator.Accumulator
	acc.Time = 1000
	c := &chain{kp: kp, events: []*Event{upd.Events[0]}}
	c.push(&acc)
	return c
}

func (c *chain) push(acc *Accumulator) {
	c.accs = append(c.accs, acc)
	c.saccs = append(c.saccs, c.sign(acc))
	re := *acc
	re.Time = acc.Time + 1000
	c.resign = append(c.resign, c.sign(&re))
	c.nus = append(c.nus, new(big.Int).Set(acc.Nu))
}

// revoke appends one revocation event for e. The accumulator value is recomputed by the
// harness (nu^(1/e mod p'q')) and compared with the library's Remove as a control.
func (c *chain) revoke(e *big.Int) bool {
	last := c.accs[len(c.accs)-1]
	acc, ev, err := last.Remove(c.kp.Sk, e, c.events[len(c.events)-1])
	if err != nil {
		return false
	}
	acc.Time = 1000 + int64(acc.Index)
	inv := new(big.Int).ModInverse(e, c.kp.Sk.Order)
	want := new(big.Int).Exp(last.Nu, inv, c.kp.Pk.N)
	if want.Cmp(acc.Nu) != 0 {
		panic("control failed: Accumulator.Remove does not compute nu^(1/e)")
	}
	c.events = append(c.events, ev)
	c.push(acc)
	return true
}

func (c *chain) n() int { return len(c.accs) - 1 }

// witnessAt issues a fresh witness against accumulator j.
func (c *chain) witnessAt(j int) *Witness {
	w, err := RandomWitness(c.kp.Sk, c.accs[j])
	if err != nil {
		panic(err)
	}
	s := *c.saccs[j]
	w.SignedAccumulator = &s
	return w
}

// window builds a fresh update object with events [a..b] and the signed accumulator of b.
func (c *chain) window(a, b int, resigned bool) *Update {
	s := *c.saccs[b]
	if resigned {
		s = *c.resign[b]
	}
	return &Update{SignedAccumulator: &s, Events: append([]*Event{}, c.events[a:b+1]...)}
}
