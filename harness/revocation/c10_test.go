package revocation

// C10 - Only authentic revocation updates are accepted.
// Oracle (differential): refAuthentic, an independently written verifier of the signed
// accumulator (CBOR tuple, ECDSA P-256 over SHA-256 with the standard library) and of the event
// hash chain (multihash 0x12 0x20 over be64(index) || parentHash || E). The library must succeed
// exactly when the reference says the RECEIVED data are authentic, and leave the receiver's
// state untouched otherwise. Every single corruption is enumerated, double corruptions sampled.

import (
	"bytes"
	"crypto/ecdsa"
	"crypto/sha256"
	"encoding/asn1"
	"encoding/binary"
	"encoding/json"
	"fmt"
	gobig "math/big"
	"sort"
	"testing"

	"github.com/fxamacker/cbor"
	"github.com/privacybydesign/gabi/big"
	"github.com/privacybydesign/gabi/gabikeys"
	"github.com/privacybydesign/gabi/internal/vfh"
	"github.com/privacybydesign/gabi/internal/vfk"
	"pgregory.net/rapid"
)

// ---------- reference verifier

type refTuple struct{ Msg, Sig []byte }

type refAcc struct {
	Nu        []byte
	Index     uint64
	Time      int64
	EventHash []byte
}

func refEventHash(index uint64, parent []byte, e *big.Int) []byte {
	buf := make([]byte, 8)
	binary.BigEndian.PutUint64(buf, index)
	buf = append(buf, parent...)
	buf = append(buf, e.Go().Bytes()...)
	d := sha256.Sum256(buf)
	return append([]byte{0x12, 0x20}, d[:]...)
}

// refSigned verifies the signed accumulator for pk and returns its content.
func refSigned(pk *gabikeys.PublicKey, data []byte, counter uint) (*refAcc, bool) {
	if pk.Counter != counter || pk.ECDSA == nil {
		return nil, false
	}
	var t refTuple
	if err := cbor.Unmarshal(data, &t); err != nil {
		return nil, false
	}
	var sig struct{ R, S *gobig.Int }
	rest, err := asn1.Unmarshal(t.Sig, &sig)
	if err != nil || len(rest) != 0 || sig.R == nil || sig.S == nil {
		return nil, false
	}
	h := sha256.Sum256(t.Msg)
	if !ecdsa.Verify(pk.ECDSA, h[:], sig.R, sig.S) {
		return nil, false
	}
	var a refAcc
	if err := cbor.Unmarshal(t.Msg, &a); err != nil {
		return nil, false
	}
	return &a, true
}

// refAuthentic: signed accumulator valid for pk and events form a gap-free, correctly indexed
// chain ending in the signed event hash (an empty event list is vacuously a chain).
func refAuthentic(pk *gabikeys.PublicKey, u *Update) (*refAcc, bool) {
	if u == nil || u.SignedAccumulator == nil {
		return nil, false
	}
	acc, ok := refSigned(pk, u.SignedAccumulator.Data, u.SignedAccumulator.PKCounter)
	if !ok {
		return nil, false
	}
	if len(u.Events) == 0 {
		return acc, true
	}
	for i, ev := range u.Events {
		if ev == nil || ev.E == nil {
			return nil, false
		}
		if ev.Index != u.Events[0].Index+uint64(i) {
			return nil, false
		}
		if i > 0 {
			prev := u.Events[i-1]
			if !bytes.Equal(refEventHash(prev.Index, prev.ParentHash, prev.E), ev.ParentHash) {
				return nil, false
			}
		}
	}
	last := u.Events[len(u.Events)-1]
	if !bytes.Equal(refEventHash(last.Index, last.ParentHash, last.E), acc.EventHash) {
		return nil, false
	}
	return acc, true
}

// ---------- corruptible description of an update

type cEvent struct {
	Index  uint64
	E      *big.Int
	Parent []byte
}

type cUpdate struct {
	Events  []cEvent
	Data    []byte
	Counter uint
	// inconsistentNu: authentically signed message whose accumulator value does not belong to its
	// events (an inconsistent issuer): verification of the message succeeds, but a witness cannot be
	// brought to it - the update must fail and leave the witness as it was
	inconsistentNu   bool
	inconsistentData []byte // the signed message the flag belongs to (a later corruption may replace it)
}

func (c *cUpdate) clone() *cUpdate {
	n := &cUpdate{Data: append([]byte{}, c.Data...), Counter: c.Counter, inconsistentNu: c.inconsistentNu, inconsistentData: c.inconsistentData}
	for _, e := range c.Events {
		n.Events = append(n.Events, cEvent{e.Index, new(big.Int).Set(e.E), append([]byte{}, e.Parent...)})
	}
	return n
}

func (c *cUpdate) build() *Update {
	u := &Update{SignedAccumulator: &SignedAccumulator{Data: append([]byte{}, c.Data...), PKCounter: c.Counter}}
	for _, e := range c.Events {
		u.Events = append(u.Events, &Event{Index: e.Index, E: new(big.Int).Set(e.E), ParentHash: Hash(append([]byte{}, e.Parent...))})
	}
	if u.Events == nil {
		u.Events = []*Event{}
	}
	return u
}

func describe(ch *chain, a, b int) *cUpdate {
	c := &cUpdate{Data: append([]byte{}, ch.saccs[b].Data...), Counter: ch.saccs[b].PKCounter}
	for _, e := range ch.events[a : b+1] {
		c.Events = append(c.Events, cEvent{e.Index, new(big.Int).Set(e.E), append([]byte{}, e.ParentHash...)})
	}
	return c
}

type corruption struct {
	name string
	f    func(c *cUpdate) bool
}

// c10World: an authentic chain plus material for substitutions.
type c10World struct {
	ch    *chain
	other *vfk.KeyPair // another issuer key (other counter, other ECDSA key)
	a, b  int
}

func (w *c10World) corruptions() []corruption {
	var out []corruption
	base := describe(w.ch, w.a, w.b)
	k := len(base.Events)
	add := func(name string, f func(c *cUpdate) bool) { out = append(out, corruption{name, f}) }
	for i := 0; i < k; i++ {
		i := i
		add(fmt.Sprintf("event%d.E+1", i), func(c *cUpdate) bool { c.Events[i].E.Add(c.Events[i].E, bi(1)); return true })
		add(fmt.Sprintf("event%d.E*2", i), func(c *cUpdate) bool { c.Events[i].E.Lsh(c.Events[i].E, 1); return true })
		add(fmt.Sprintf("event%d.index+1", i), func(c *cUpdate) bool { c.Events[i].Index++; return true })
		add(fmt.Sprintf("event%d.index-1", i), func(c *cUpdate) bool { c.Events[i].Index--; return true })
		add(fmt.Sprintf("event%d.index=0", i), func(c *cUpdate) bool {
			if c.Events[i].Index == 0 {
				return false
			}
			c.Events[i].Index = 0
			return true
		})
		add(fmt.Sprintf("event%d.index+2^32", i), func(c *cUpdate) bool { c.Events[i].Index += 1 << 32; return true })
		for p := 0; p < len(base.Events[i].Parent); p++ {
			p := p
			add(fmt.Sprintf("event%d.parent.flipbyte%d", i, p), func(c *cUpdate) bool { c.Events[i].Parent[p] ^= 0x01; return true })
		}
		for _, t := range []int{1, 2, 16, 17, 33, 34} {
			t := t
			add(fmt.Sprintf("event%d.parent.truncate%d", i, t), func(c *cUpdate) bool {
				if t > len(c.Events[i].Parent) {
					return false
				}
				c.Events[i].Parent = c.Events[i].Parent[:len(c.Events[i].Parent)-t]
				return true
			})
		}
		add(fmt.Sprintf("event%d.parent.prefix-with-consistent-length", i), func(c *cUpdate) bool {
			p := c.Events[i].Parent
			if len(p) < 34 {
				return false
			}
			c.Events[i].Parent = append([]byte{p[0], 0x10}, p[2:18]...)
			return true
		})
		add(fmt.Sprintf("event%d.parent.extend", i), func(c *cUpdate) bool { c.Events[i].Parent = append(c.Events[i].Parent, 0); return true })
		add(fmt.Sprintf("event%d.parent.extend-consistent", i), func(c *cUpdate) bool {
			p := c.Events[i].Parent
			if len(p) < 34 {
				return false
			}
			c.Events[i].Parent = append(append([]byte{p[0], 0x21}, p[2:]...), 0)
			return true
		})
		add(fmt.Sprintf("event%d.parent.alg-sha2-512", i), func(c *cUpdate) bool {
			p := c.Events[i].Parent
			if len(p) < 34 {
				return false
			}
			d := append(append([]byte{}, p[2:]...), p[2:]...)
			c.Events[i].Parent = append([]byte{0x13, 0x40}, d...)
			return true
		})
		add(fmt.Sprintf("event%d.parent.alg-sha1", i), func(c *cUpdate) bool {
			p := c.Events[i].Parent
			if len(p) < 34 {
				return false
			}
			c.Events[i].Parent = append([]byte{0x11, 0x14}, p[2:22]...)
			return true
		})
		add(fmt.Sprintf("event%d.parent.alg-identity", i), func(c *cUpdate) bool {
			p := c.Events[i].Parent
			if len(p) < 34 {
				return false
			}
			c.Events[i].Parent = append([]byte{0x00, 0x20}, p[2:]...)
			return true
		})
		add(fmt.Sprintf("event%d.parent.empty", i), func(c *cUpdate) bool { c.Events[i].Parent = []byte{}; return true })
		add(fmt.Sprintf("event%d.deleted", i), func(c *cUpdate) bool {
			c.Events = append(c.Events[:i:i], c.Events[i+1:]...)
			return true
		})
		add(fmt.Sprintf("event%d.duplicated", i), func(c *cUpdate) bool {
			d := c.clone().Events[i]
			c.Events = append(c.Events[:i+1:i+1], append([]cEvent{d}, c.Events[i+1:]...)...)
			return true
		})
		add(fmt.Sprintf("event%d.inserted-before", i), func(c *cUpdate) bool {
			prev := c.Events[i]
			ins := cEvent{Index: prev.Index, E: new(big.Int).Add(prev.E, bi(2)), Parent: append([]byte{}, prev.Parent...)}
			c.Events = append(c.Events[:i:i], append([]cEvent{ins}, c.Events[i:]...)...)
			for j := i + 1; j < len(c.Events); j++ {
				c.Events[j].Index++
			}
			return true
		})
		for j := i + 1; j < k; j++ {
			j := j
			add(fmt.Sprintf("events%d,%d.swapped", i, j), func(c *cUpdate) bool {
				c.Events[i], c.Events[j] = c.Events[j], c.Events[i]
				return true
			})
			add(fmt.Sprintf("events%d,%d.E-swapped", i, j), func(c *cUpdate) bool {
				if c.Events[i].E.Cmp(c.Events[j].E) == 0 {
					return false
				}
				c.Events[i].E, c.Events[j].E = c.Events[j].E, c.Events[i].E
				return true
			})
		}
	}
	add("all-events-removed", func(c *cUpdate) bool { c.Events = nil; return true })
	// signed accumulator: every byte of the CBOR tuple (message region and signature region)
	for p := 0; p < len(base.Data); p++ {
		p := p
		add(fmt.Sprintf("sacc.data.flipbyte%d", p), func(c *cUpdate) bool { c.Data[p] ^= 0x01; return true })
	}
	add("sacc.data.truncated", func(c *cUpdate) bool { c.Data = c.Data[:len(c.Data)-1]; return true })
	add("sacc.data.extended", func(c *cUpdate) bool { c.Data = append(c.Data, 0); return true })
	add("sacc.data.empty", func(c *cUpdate) bool { c.Data = []byte{}; return true })
	add("sacc.counter+1", func(c *cUpdate) bool { c.Counter++; return true })
	add("sacc.counter=other-key", func(c *cUpdate) bool {
		if c.Counter == w.other.Pk.Counter {
			return false
		}
		c.Counter = w.other.Pk.Counter
		return true
	})
	for j := 0; j <= w.ch.n(); j++ {
		j := j
		if j != w.b {
			add(fmt.Sprintf("sacc.replaced-by-signed-accumulator-of-index%d", j), func(c *cUpdate) bool {
				c.Data = append([]byte{}, w.ch.saccs[j].Data...)
				return true
			})
		}
	}
	add("sacc.replaced-by-resigned-later-time(authentic)", func(c *cUpdate) bool {
		c.Data = append([]byte{}, w.ch.resign[w.b].Data...)
		return true
	})
	add("sacc.issuer-signs-accumulator-value-that-does-not-belong-to-the-events(authentic)", func(c *cUpdate) bool {
		if w.b == 0 || len(c.Events) == 0 || c.Events[len(c.Events)-1].Index != uint64(w.b) || c.Events[0].Index == 0 {
			return false
		}
		acc := *w.ch.accs[w.b]
		acc.Nu = new(big.Int).Exp(acc.Nu, bi(3), w.ch.kp.Pk.N) // some other quadratic residue
		s, err := acc.Sign(w.ch.kp.Sk)
		if err != nil {
			return false
		}
		c.Data = s.Data
		c.inconsistentNu = true
		c.inconsistentData = append([]byte{}, s.Data...)
		return true
	})
	add("sacc.same-accumulator-signed-by-other-key", func(c *cUpdate) bool {
		s, err := w.ch.accs[w.b].Sign(w.other.Sk)
		if err != nil {
			return false
		}
		c.Data = s.Data
		return true
	})
	add("sacc.same-accumulator-signed-by-other-key+its-counter", func(c *cUpdate) bool {
		s, err := w.ch.accs[w.b].Sign(w.other.Sk)
		if err != nil {
			return false
		}
		c.Data, c.Counter = s.Data, s.PKCounter
		return true
	})
	// altered event + accumulator re-signed over the altered chain: by the wrong key (forgery) and
	// by the right key (an authentic alternative message of the issuer: must be accepted)
	for _, right := range []bool{false, true} {
		right := right
		name := "event-altered+accumulator-resigned-by-wrong-key"
		if right {
			name = "event-altered+accumulator-resigned-by-issuer(authentic)"
		}
		add(name, func(c *cUpdate) bool {
			if len(c.Events) == 0 {
				return false
			}
			if w.b == 0 {
				return false // the initial event removes nothing; there is no consistent alternative
			}
			l := len(c.Events) - 1
			if c.Events[l].Index != uint64(w.b) {
				return false // (double corruption) an honest issuer never signs an event of another index
			}
			c.Events[l].E.Add(c.Events[l].E, bi(2))
			acc := *w.ch.accs[w.b]
			// a consistent alternative: the accumulator value the issuer would publish after
			// removing the altered value instead
			inv := new(big.Int).ModInverse(c.Events[l].E, w.ch.kp.Sk.Order)
			if inv == nil {
				return false
			}
			acc.Nu = new(big.Int).Exp(w.ch.nus[w.b-1], inv, w.ch.kp.Pk.N)
			acc.EventHash = Hash(refEventHash(c.Events[l].Index, c.Events[l].Parent, c.Events[l].E))
			sk := w.other.Sk
			if right {
				sk = w.ch.kp.Sk
			}
			s, err := signWith(&acc, sk, w.ch.kp.Sk.Counter)
			if err != nil {
				return false
			}
			c.Data = s.Data
			return true
		})
	}
	return out
}

func signWith(acc *Accumulator, sk *gabikeys.PrivateKey, counter uint) (*SignedAccumulator, error) {
	s, err := acc.Sign(sk)
	if err != nil {
		return nil, err
	}
	s.PKCounter = counter
	return s, nil
}

func transport(u *Update, how string) (*Update, bool) {
	switch how {
	case "memory":
		return u, true
	case "json":
		b, err := json.Marshal(u)
		if err != nil {
			return nil, false
		}
		var r Update
		if err := json.Unmarshal(b, &r); err != nil {
			return nil, false
		}
		return &r, true
	case "cbor":
		b, err := cbor.Marshal(u, cbor.EncOptions{})
		if err != nil {
			return nil, false
		}
		var r Update
		if err := cbor.Unmarshal(b, &r); err != nil {
			return nil, false
		}
		return &r, true
	}
	return nil, false
}

func cloneUpdate(u *Update) *Update {
	n := &Update{}
	if u.SignedAccumulator != nil {
		n.SignedAccumulator = &SignedAccumulator{Data: append([]byte{}, u.SignedAccumulator.Data...), PKCounter: u.SignedAccumulator.PKCounter}
	}
	for _, e := range u.Events {
		if e == nil {
			n.Events = append(n.Events, nil)
			continue
		}
		ne := &Event{Index: e.Index, ParentHash: Hash(append([]byte{}, e.ParentHash...))}
		if e.E != nil {
			ne.E = new(big.Int).Set(e.E)
		}
		n.Events = append(n.Events, ne)
	}
	if n.Events == nil {
		n.Events = []*Event{}
	}
	return n
}

func sameUpdate(a, b *Update) bool {
	if (a.SignedAccumulator == nil) != (b.SignedAccumulator == nil) || len(a.Events) != len(b.Events) {
		return false
	}
	if a.SignedAccumulator != nil && (!bytes.Equal(a.SignedAccumulator.Data, b.SignedAccumulator.Data) || a.SignedAccumulator.PKCounter != b.SignedAccumulator.PKCounter) {
		return false
	}
	for i := range a.Events {
		x, y := a.Events[i], b.Events[i]
		if x.Index != y.Index || x.E.Cmp(y.E) != 0 || !bytes.Equal(x.ParentHash, y.ParentHash) {
			return false
		}
	}
	return true
}

// c10Judge presents one (possibly corrupted) update through one transport to Update.Verify and
// Witness.Update. Returns a violation signature or "".
func (w *c10World) judge(c *cUpdate, how string) (sig, what string, reached bool) {
	pk := w.ch.kp.Pk
	recv, ok := transport(c.build(), how)
	if !ok {
		return "", "", false // refused by the (de)serialiser: fine
	}
	_, authentic := refAuthentic(pk, recv)
	// the inconsistent-value marker only holds while the marked message is still the one presented
	incons := c.inconsistentNu && bytes.Equal(c.Data, c.inconsistentData)
	// ---- Update.Verify, on the received (decoded) object itself: what decoding leaves on the object
	// is part of what is verified
	u1, ok := transport(c.build(), how)
	if !ok {
		return "", "", false
	}
	var err error
	var acc *Accumulator
	if ps := vfh.Guard(func() { acc, err = u1.Verify(pk) }); ps != "" {
		return ps + ":Update.Verify", how, true
	}
	if authentic && err != nil {
		return "authentic-update-rejected:Update.Verify", fmt.Sprintf("%s: %v", how, err), true
	}
	if !authentic && err == nil {
		return "unauthentic-update-accepted:Update.Verify", how, true
	}
	if err == nil && acc == nil {
		return "Update.Verify-returns-no-accumulator", how, true
	}
	// the same received object presented again (a receiver that retries): same verdict
	var err2 error
	if ps := vfh.Guard(func() { _, err2 = u1.Verify(pk) }); ps != "" {
		return ps + ":Update.Verify:second-call-on-the-same-object", how, true
	}
	if (err == nil) != (err2 == nil) {
		if err2 == nil {
			return "unauthentic-update-accepted:Update.Verify:second-call-on-the-same-object", how, true
		}
		return "authentic-update-rejected:Update.Verify:second-call-on-the-same-object", fmt.Sprintf("%s: %v", how, err2), true
	}
	// ---- Witness.Update, witness positioned just before the window (or at 0), and at the
	// window's last index (the "same accumulator index" path)
	for _, pos := range []int{w.a - 1, w.b} {
		if incons && pos == w.b {
			continue
		}
		recvW, ok := transport(c.build(), how) // a freshly received object per witness
		if !ok {
			continue
		}
		if s, wh := w.judgeWitness(recvW, authentic && !incons, how, pos); s != "" {
			if incons {
				s = "inconsistent-accumulator:" + s
			}
			return s, wh, true
		}
	}
	return "", "", true
}

func (w *c10World) judgeWitness(recv *Update, authentic bool, how string, pos int) (sig, what string) {
	pk := w.ch.kp.Pk
	var err error
	if pos < 0 {
		pos = 0
	}
	how = fmt.Sprintf("%s, witness at index %d", how, pos)
	wit := w.ch.witnessAt(pos)
	wit.SignedAccumulator.Accumulator = nil // make the witness verify its own accumulator too
	if _, err := wit.SignedAccumulator.UnmarshalVerify(pk); err != nil {
		return "control:fresh-witness-accumulator-rejected", err.Error()
	}
	snapU, snapE, snapPtr, snapS := new(big.Int).Set(wit.U), new(big.Int).Set(wit.E), wit.SignedAccumulator, *wit.SignedAccumulator
	u2 := recv // the received object itself (the reference works on a copy)
	recv = cloneUpdate(recv)
	if ps := vfh.Guard(func() { err = wit.Update(pk, u2) }); ps != "" {
		return ps + ":Witness.Update", how
	}
	unchanged := wit.U.Cmp(snapU) == 0 && wit.E.Cmp(snapE) == 0 && wit.SignedAccumulator == snapPtr &&
		bytes.Equal(wit.SignedAccumulator.Data, snapS.Data) && wit.SignedAccumulator.PKCounter == snapS.PKCounter && wit.SignedAccumulator.Accumulator == snapS.Accumulator
	if !authentic {
		if err == nil {
			return "unauthentic-update-accepted:Witness.Update", how
		}
		if !unchanged {
			return "rejected-update-changes-witness", how
		}
		// retry with the same update object and witness: still refused, still unchanged
		if ps := vfh.Guard(func() { err = wit.Update(pk, u2) }); ps != "" {
			return ps + ":Witness.Update:second-call-on-the-same-objects", how
		}
		if err == nil {
			return "unauthentic-update-accepted:Witness.Update:second-call-on-the-same-objects", how
		}
		if !(wit.U.Cmp(snapU) == 0 && wit.E.Cmp(snapE) == 0 && wit.SignedAccumulator == snapPtr &&
			bytes.Equal(wit.SignedAccumulator.Data, snapS.Data) && wit.SignedAccumulator.PKCounter == snapS.PKCounter && wit.SignedAccumulator.Accumulator == snapS.Accumulator) {
			return "rejected-update-changes-witness:second-call-on-the-same-objects", how
		}
		return "", ""
	}
	// authentic: outcome by position (as in C09's model); the witness is not revoked
	racc, _ := refAuthentic(pk, recv)
	first := uint64(0)
	if len(recv.Events) > 0 {
		first = recv.Events[0].Index
	}
	switch {
	case racc.Index <= uint64(pos) || len(recv.Events) == 0:
		if err != nil {
			return "authentic-update-rejected:Witness.Update(noop)", fmt.Sprintf("%s: %v", how, err)
		}
	case first > uint64(pos)+1:
		if err == nil {
			return "gap-update-accepted:Witness.Update", how
		}
		if !unchanged {
			return "rejected-update-changes-witness", how
		}
	default:
		if err != nil {
			return "authentic-update-rejected:Witness.Update", fmt.Sprintf("%s: %v", how, err)
		}
		if wit.SignedAccumulator.Accumulator.Index != racc.Index {
			return "witness-not-advanced-to-signed-index", how
		}
		nu := new(big.Int).SetBytes(racc.Nu)
		if new(big.Int).Exp(wit.U, wit.E, pk.N).Cmp(nu) != 0 {
			return "witness-invalid-after-authentic-update", how
		}
	}
	return "", ""
}

func newC10World(seed, n int) *c10World {
	w := &c10World{ch: newChain(revKey(seed % 4)), other: revKey((seed + 1) % 4)}
	for j := 0; j < n; j++ {
		w.ch.revoke(w.ch.witnessAt(j).E)
	}
	return w
}

func TestVF_C10_Single(t *testing.T) {
	rec := vfh.New(t, "C10")
	defer rec.Flush()
	seedLib(t, uint64(rec.Seed()))
	maxN := rec.N(4, 8)
	item := 0
	for n := 0; n <= maxN; n++ {
		w := newC10World(n+int(rec.Seed()), n)
		for a := 0; a <= n; a++ {
			for b := a; b <= n; b++ {
				// quick: all windows for n <= 3, boundary windows beyond
				if n > 3 && !(a == 0 || a == b || b == n) {
					continue
				}
				w.a, w.b = a, b
				base := describe(w.ch, a, b)
				for _, how := range []string{"memory", "json", "cbor"} {
					item++
					if !rec.Mine(item) {
						continue
					}
					// control: the authentic message is accepted through this transport
					if sig, what, _ := w.judge(base, how); sig != "" {
						rec.FailT("authentic:"+sig, map[string]any{"n": n, "window": []int{a, b}, "transport": how, "what": what})
						continue
					}
					rec.Control(true, "")
					for _, c := range w.corruptions() {
						cu := base.clone()
						if !c.f(cu) {
							continue
						}
						sig, what, reached := w.judge(cu, how)
						cls := "single/" + how + "/" + stripIdx(c.name)
						rec.Case(cls, reached, fmt.Sprintf("%d|%d|%d|%s|%s", n, a, b, how, c.name))
						rec.Sample(func() any {
							return map[string]any{"chain_length": n, "window": []int{a, b}, "transport": how, "corruption": c.name}
						})
						if sig != "" {
							rec.FailT(sig+":"+stripIdx(c.name), map[string]any{"n": n, "window": []int{a, b}, "transport": how, "corruption": c.name, "what": what})
						}
					}
				}
			}
		}
	}
	rec.SetExhaustive(true)
}

func stripIdx(s string) string {
	out := make([]byte, 0, len(s))
	for i := 0; i < len(s); i++ {
		if s[i] < '0' || s[i] > '9' {
			out = append(out, s[i])
		}
	}
	return string(out)
}

func TestVF_C10_Double(t *testing.T) {
	rec := vfh.New(t, "C10")
	defer rec.Flush()
	rec.Check(func(rt *rapid.T) {
		seedLib(t, rapid.Uint64().Draw(rt, "libSeed"))
		n := rapid.IntRange(1, 8).Draw(rt, "n")
		w := newC10World(rapid.IntRange(0, 3).Draw(rt, "key"), n)
		w.a = rapid.IntRange(0, n).Draw(rt, "a")
		w.b = rapid.IntRange(w.a, n).Draw(rt, "b")
		how := rapid.SampledFrom([]string{"memory", "json", "cbor"}).Draw(rt, "transport")
		cs := w.corruptions()
		cu := describe(w.ch, w.a, w.b)
		var names []string
		for k := 0; k < 2; k++ {
			c := cs[rapid.IntRange(0, len(cs)-1).Draw(rt, "corruption")]
			func() {
				defer func() { _ = recover() }() // a second operator may not fit the already altered shape
				if c.f(cu) {
					names = append(names, c.name)
				}
			}()
		}
		sig, what, reached := w.judge(cu, how)
		rec.Case("double/"+how, reached, fmt.Sprintf("%d|%d|%d|%s|%v", n, w.a, w.b, how, names))
		if sig != "" {
			rec.Fail(rt, sig+":double", map[string]any{"n": n, "window": []int{w.a, w.b}, "transport": how, "corruptions": names, "what": what})
		}
	})
}

// Hash.Equal must be byte-wise equality including length.
func TestVF_C10_HashEqual(t *testing.T) {
	rec := vfh.New(t, "C10")
	defer rec.Flush()
	rec.Check(func(rt *rapid.T) {
		d := rapid.SliceOfN(rapid.Byte(), 32, 32).Draw(rt, "digest")
		a := append([]byte{0x12, 0x20}, d...)
		variants := map[string][]byte{
			"equal":            append([]byte{}, a...),
			"strict-prefix":    append([]byte{}, a[:rapid.IntRange(0, 33).Draw(rt, "plen")]...),
			"extension":        append(append([]byte{}, a...), rapid.SliceOfN(rapid.Byte(), 1, 4).Draw(rt, "ext")...),
			"empty":            {},
			"one-byte-differs": append([]byte{}, a...),
			"length-byte":      append([]byte{0x12, 0x10}, d[:16]...),
		}
		p := rapid.IntRange(0, 33).Draw(rt, "pos")
		variants["one-byte-differs"][p] ^= byte(rapid.IntRange(1, 255).Draw(rt, "xor"))
		for name, b := range variants {
			for _, dir := range []string{"a.Equal(b)", "b.Equal(a)"} {
				x, y := a, b
				if dir == "b.Equal(a)" {
					x, y = b, a
				}
				var got bool
				if ps := vfh.Guard(func() { got = Hash(x).Equal(Hash(y)) }); ps != "" {
					rec.Fail(rt, ps, map[string]any{"variant": name})
					return
				}
				rec.Case("Hash.Equal/"+name, name != "equal", fmt.Sprintf("%x|%x", x, y))
				if got != bytes.Equal(x, y) {
					rec.Fail(rt, "Hash.Equal-differs-from-bytewise-equality:"+name, map[string]any{"a": fmt.Sprintf("%x", x), "b": fmt.Sprintf("%x", y), "direction": dir, "got": got})
					return
				}
			}
		}
	})
}

// ---------- Update.Prepend

type wireEventList struct {
	Index      uint64     `json:"i"`
	ParentHash Hash       `json:"hash"`
	E          []*big.Int `json:"e"`
}

// listVia passes an event list through its JSON or CBOR form (the compressed form re-derives
// indices and hashes; the decoded list is pre-marked as verified by the library).
func listVia(events []*Event, how string, mutate func(c *wireEventList)) (*EventList, bool) {
	return listViaP(events, how, mutate, false)
}

// listViaReuse: if set, listViaP first parses these events into the object it then reuses
var listViaReuse []*Event

// listViaP: as listVia; computeProduct asks the decoder to accumulate the product of the events
func listViaP(events []*Event, how string, mutate func(c *wireEventList), computeProduct bool) (*EventList, bool) {
	// the wire form of an event list (field names are the public format: i, hash, e), built by the
	// harness from the events so that nothing unexported of the package is needed
	cc := &wireEventList{}
	if len(events) > 0 {
		cc.Index, cc.ParentHash = events[0].Index, Hash(append([]byte{}, events[0].ParentHash...))
	}
	for _, e := range events {
		cc.E = append(cc.E, new(big.Int).Set(e.E))
	}
	if mutate != nil {
		mutate(cc)
	}
	el := EventList{ComputeProduct: computeProduct}
	if listViaReuse != nil {
		// the receiving object has parsed another list before (a reused variable)
		switch how {
		case "json":
			if b, err := json.Marshal(NewEventList(listViaReuse...)); err == nil {
				_ = json.Unmarshal(b, &el)
			}
		default:
			if b, err := cbor.Marshal(NewEventList(listViaReuse...), cbor.EncOptions{}); err == nil {
				_ = cbor.Unmarshal(b, &el)
			}
		}
	}
	switch how {
	case "json":
		b, err := json.Marshal(cc)
		if err != nil {
			return nil, false
		}
		if err := json.Unmarshal(b, &el); err != nil {
			return nil, false
		}
	default:
		b, err := cbor.Marshal(cc, cbor.EncOptions{})
		if err != nil {
			return nil, false
		}
		if err := cbor.Unmarshal(b, &el); err != nil {
			return nil, false
		}
	}
	return &el, true
}

func TestVF_C10_Prepend(t *testing.T) {
	rec := vfh.New(t, "C10")
	defer rec.Flush()
	seedLib(t, uint64(rec.Seed())+99)
	maxN := rec.N(4, 7)
	type mut struct {
		name string
		f    func(c *wireEventList)
	}
	muts := []mut{
		{"none", nil},
		{"first.E+2", func(c *wireEventList) { c.E[0].Add(c.E[0], bi(2)) }},
		{"last.E+2", func(c *wireEventList) { c.E[len(c.E)-1].Add(c.E[len(c.E)-1], bi(2)) }},
		{"index+1", func(c *wireEventList) { c.Index++ }},
		{"index-1", func(c *wireEventList) { c.Index-- }},
		{"parenthash-flip", func(c *wireEventList) {
			if len(c.ParentHash) > 5 {
				c.ParentHash[5] ^= 1
			}
		}},
		{"last-dropped", func(c *wireEventList) { c.E = c.E[:len(c.E)-1] }},
		{"first-dropped", func(c *wireEventList) {
			c.E = c.E[1:]
		}},
	}
	item := 0
	for n := 1; n <= maxN; n++ {
		w := newC10World(n+int(rec.Seed()), n)
		pk := w.ch.kp.Pk
		for a := 0; a <= n; a++ {
			for b := a; b <= n; b++ {
				for c := 0; c <= n; c++ {
					for d := c; d <= n; d++ {
						item++
						if !rec.Mine(item) {
							continue
						}
						for _, how := range []string{"json", "cbor"} {
							for _, m := range muts {
								if m.name == "first-dropped" && d == c {
									continue
								}
								el, ok := listVia(w.ch.events[c:d+1], how, m.f)
								if !ok {
									continue
								}
								upd := transportMust(w.ch.window(a, b, false), how)
								if _, err := upd.Verify(pk); err != nil {
									rec.Control(false, "authentic update rejected before Prepend")
									continue
								}
								snap := cloneUpdate(upd)
								var err error
								ps := vfh.Guard(func() { err = upd.Prepend(el) })
								inDomain := len(el.Events) > 0 && a > 0 && el.Events[0].Index < uint64(a) &&
									el.Events[len(el.Events)-1].Index+1 >= uint64(a) && el.Events[len(el.Events)-1].Index <= uint64(b)
								cls := "prepend/out-of-domain"
								if inDomain {
									cls = "prepend/older-adjacent-or-overlapping"
								}
								rec.Case(cls+"/"+m.name, true, fmt.Sprintf("%d|%d|%d|%d|%d|%s|%s", n, a, b, c, d, how, m.name))
								det := map[string]any{"n": n, "update_window": []int{a, b}, "list_window": []int{c, d}, "transport": how, "list_mutation": m.name}
								if ps != "" {
									rec.FailT(ps+":Update.Prepend", det)
									continue
								}
								// what the merged update would have to be
								var merged *Update
								if inDomain {
									keep := int(el.Events[len(el.Events)-1].Index) + 1 - a
									merged = &Update{SignedAccumulator: snap.SignedAccumulator, Events: append(append([]*Event{}, el.Events...), snap.Events[keep:]...)}
								}
								if err != nil {
									if !sameUpdate(upd, snap) {
										rec.FailT("failed-Prepend-changes-update", det)
									}
									if inDomain {
										if _, auth := refAuthentic(pk, merged); auth {
											rec.FailT("authentic-older-events-rejected:Update.Prepend", det)
										}
									}
									continue
								}
								// success: whatever the update now holds must be authentic
								chk := cloneUpdate(upd)
								if _, auth := refAuthentic(pk, chk); !auth {
									rec.FailT("unauthentic-events-accepted:Update.Prepend", det)
									continue
								}
								if inDomain {
									if _, auth := refAuthentic(pk, merged); !auth {
										rec.FailT("unauthentic-events-accepted:Update.Prepend", det)
									} else if !sameUpdate(chk, cloneUpdate(merged)) {
										rec.FailT("Prepend-result-differs-from-merged-chain", det)
									}
								}
							}
						}
					}
				}
			}
		}
	}
	rec.SetExhaustive(true)
}

func transportMust(u *Update, how string) *Update {
	r, ok := transport(u, how)
	if !ok {
		panic("transport of an authentic update failed")
	}
	return r
}

// ---------- native fuzzing of the Update decoders (thorough tier): for any bytes that decode,
// the library's verdict must equal the reference's.
func c10FuzzWorld() *c10World {
	w := newC10World(0, 3)
	w.a, w.b = 1, 3
	return w
}

func FuzzVF_C10_UpdateJSON(f *testing.F) {
	w := c10FuzzWorld()
	pk := w.ch.kp.Pk
	for a := 0; a <= 3; a++ {
		b, _ := json.Marshal(w.ch.window(a, 3, false))
		f.Add(b)
	}
	f.Add([]byte(`{"sacc":null}`))
	f.Add([]byte(`{"sacc":{"data":"AA==","pk":0},"e":{"i":0,"hash":"","e":["AQ=="]}}`))
	f.Fuzz(func(t *testing.T, data []byte) {
		var u Update
		if err := json.Unmarshal(data, &u); err != nil {
			return
		}
		c10FuzzJudge(t, pk, &u)
	})
}

func FuzzVF_C10_UpdateCBOR(f *testing.F) {
	w := c10FuzzWorld()
	pk := w.ch.kp.Pk
	for a := 0; a <= 3; a++ {
		b, _ := cbor.Marshal(w.ch.window(a, 3, false), cbor.EncOptions{})
		f.Add(b)
	}
	f.Fuzz(func(t *testing.T, data []byte) {
		var u Update
		if err := cbor.Unmarshal(data, &u); err != nil {
			return
		}
		c10FuzzJudge(t, pk, &u)
	})
}

func c10FuzzJudge(t *testing.T, pk *gabikeys.PublicKey, u *Update) {
	for _, e := range u.Events {
		if e == nil || e.E == nil {
			return
		}
	}
	authentic := false
	if u.SignedAccumulator != nil { // a message without any accumulator is never authentic
		_, authentic = refAuthentic(pk, cloneUpdate(u))
	}
	c := u // the decoded object itself
	var err error
	if ps := vfh.Guard(func() { _, err = c.Verify(pk) }); ps != "" {
		t.Fatalf("VF-VIOLATION %s:Update.Verify", ps)
	}
	if authentic != (err == nil) {
		t.Fatalf("VF-VIOLATION update-verdict-differs-from-reference(authentic=%v,err=%v)", authentic, err)
	}
}

// ---------- wire-level structure damage: every value of the JSON / CBOR form of an update (and of
// an event list) replaced by null, or removed; decoding and the entry points behind it must return,
// and whatever decodes is judged by the reference

func wirePaths(v any, prefix []any, out *[][]any) {
	switch x := v.(type) {
	case map[string]any:
		keys := make([]string, 0, len(x))
		for k := range x {
			keys = append(keys, k)
		}
		sort.Strings(keys)
		for _, k := range keys {
			p := append(append([]any{}, prefix...), k)
			*out = append(*out, p)
			wirePaths(x[k], p, out)
		}
	case map[any]any:
		keys := make([]string, 0, len(x))
		for k := range x {
			keys = append(keys, fmt.Sprint(k))
		}
		sort.Strings(keys)
		for _, k := range keys {
			p := append(append([]any{}, prefix...), k)
			*out = append(*out, p)
			wirePaths(x[k], p, out)
		}
	case []any:
		for i := range x {
			p := append(append([]any{}, prefix...), i)
			*out = append(*out, p)
			wirePaths(x[i], p, out)
		}
	}
}

// wireEdit replaces (remove=false) or removes the value at path; returns false if not applicable
func wireEdit(root any, path []any, remove bool) bool {
	cur := root
	for d, step := range path {
		last := d == len(path)-1
		switch x := cur.(type) {
		case map[string]any:
			k := step.(string)
			if last {
				if remove {
					delete(x, k)
				} else {
					x[k] = nil
				}
				return true
			}
			cur = x[k]
		case map[any]any:
			k := step.(string)
			if last {
				if remove {
					delete(x, k)
				} else {
					x[k] = nil
				}
				return true
			}
			cur = x[k]
		case []any:
			i := step.(int)
			if last {
				if remove {
					return false // removal of list elements is covered by the event-level corruptions
				}
				x[i] = nil
				return true
			}
			cur = x[i]
		default:
			return false
		}
	}
	return false
}

func TestVF_C10_WireStructure(t *testing.T) {
	rec := vfh.New(t, "C10")
	defer rec.Flush()
	seedLib(t, uint64(rec.Seed())+7)
	maxN := rec.N(3, 5)
	for n := 1; n <= maxN; n++ {
		w := newC10World(n+int(rec.Seed()), n)
		pk := w.ch.kp.Pk
		for a := 0; a <= n; a++ {
			for _, how := range []string{"json", "cbor"} {
				for _, obj := range []string{"update", "eventlist"} {
					var doc []byte
					var err error
					var src any = w.ch.window(a, n, false)
					if obj == "eventlist" {
						src = NewEventList(w.ch.events[a : n+1]...)
					}
					if how == "json" {
						doc, err = json.Marshal(src)
					} else {
						doc, err = cbor.Marshal(src, cbor.EncOptions{})
					}
					if err != nil {
						t.Fatalf("marshal: %v", err)
					}
					decodeTree := func() any {
						var tree any
						if how == "json" {
							d := json.NewDecoder(bytes.NewReader(doc))
							d.UseNumber()
							_ = d.Decode(&tree)
						} else {
							_ = cbor.Unmarshal(doc, &tree)
						}
						return tree
					}
					var paths [][]any
					wirePaths(decodeTree(), nil, &paths)
					for _, path := range paths {
						for _, remove := range []bool{false, true} {
							tree := decodeTree()
							if !wireEdit(tree, path, remove) {
								continue
							}
							var mutated []byte
							if how == "json" {
								mutated, err = json.Marshal(tree)
							} else {
								mutated, err = cbor.Marshal(tree, cbor.EncOptions{})
							}
							if err != nil {
								continue
							}
							what := "null"
							if remove {
								what = "removed"
							}
							det := map[string]any{"n": n, "window": []int{a, n}, "transport": how, "object": obj, "path": fmt.Sprint(path), "edit": what}
							rec.Case(fmt.Sprintf("wire/%s/%s/%s", obj, how, what), true, fmt.Sprintf("%d|%d|%s|%s|%v|%s", n, a, how, obj, path, what))
							if obj == "eventlist" {
								for _, cp := range []bool{false, true} {
									el := EventList{ComputeProduct: cp}
									var derr error
									if ps := vfh.Guard(func() {
										if how == "json" {
											derr = json.Unmarshal(mutated, &el)
										} else {
											derr = cbor.Unmarshal(mutated, &el)
										}
									}); ps != "" {
										rec.FailT(ps+":decoding-event-list", det)
										continue
									}
									if derr != nil {
										continue
									}
									upd := transportMust(w.ch.window(n, n, false), how)
									if _, err := upd.Verify(pk); err != nil {
										continue
									}
									if ps := vfh.Guard(func() { _ = upd.Prepend(&el) }); ps != "" {
										rec.FailT(ps+":Update.Prepend(decoded list)", det)
										continue
									}
									if _, auth := refAuthentic(pk, cloneUpdate(upd)); !auth {
										rec.FailT("unauthentic-events-accepted:Update.Prepend", det)
									}
								}
								continue
							}
							var u Update
							var derr error
							if ps := vfh.Guard(func() {
								if how == "json" {
									derr = json.Unmarshal(mutated, &u)
								} else {
									derr = cbor.Unmarshal(mutated, &u)
								}
							}); ps != "" {
								rec.FailT(ps+":decoding-update", det)
								continue
							}
							if derr != nil {
								continue // refused by the decoder
							}
							authentic := false
							if u.SignedAccumulator != nil { // a message without any accumulator is never authentic
								_, authentic = refAuthentic(pk, cloneUpdate(&u))
							}
							var verr error
							if ps := vfh.Guard(func() { _, verr = u.Verify(pk) }); ps != "" {
								rec.FailT(ps+":Update.Verify(decoded)", det)
								continue
							}
							if authentic != (verr == nil) {
								rec.FailT("update-verdict-differs-from-reference:wire-structure", det)
							}
						}
					}
				}
			}
		}
	}
}
