package revocation

// C09 - Revocation witnesses track the accumulator through any history.
// Bounded-exhaustive enumeration (histories x windows x application scripts, shared vs fresh
// update objects) plus a rapid-driven random search over longer histories, both against an
// abstract model: per witness (index, revokedAt); per window (a, b, time).

import (
	"errors"
	"fmt"
	"testing"

	"github.com/privacybydesign/gabi/big"
	"github.com/privacybydesign/gabi/internal/vfh"
	"pgregory.net/rapid"
)

type c09Hist struct {
	c         *chain
	wits      []*Witness // wits[i] issued at index i (pristine; copied per script)
	revokedAt []int      // per witness: event index that revoked it, or 0 = never
	targets   []int      // per event 1..n: witness id revoked, or -1 = fresh value
}

// buildHist creates a history: targets[j-1] is the witness revoked by event j (or -1).
func buildHist(seed int, targets []int) *c09Hist {
	kp := revKey(seed % 4)
	h := &c09Hist{c: newChain(kp), targets: targets}
	h.wits = append(h.wits, h.c.witnessAt(0))
	h.revokedAt = append(h.revokedAt, 0)
	for j := 1; j <= len(targets); j++ {
		var e *big.Int
		if t := targets[j-1]; t >= 0 {
			e = h.wits[t].E
			h.revokedAt[t] = j
		} else {
			e = h.c.witnessAt(j - 1).E // a fresh prime of the right size
		}
		if !h.c.revoke(e) {
			panic("revoke failed")
		}
		h.wits = append(h.wits, h.c.witnessAt(j))
		h.revokedAt = append(h.revokedAt, 0)
	}
	return h
}

type c09Win struct {
	a, b     int
	resigned bool
}

type c09Step struct {
	win    int // index into windows
	wit    int
	shared int // -1: fresh object; k >= 0: reuse the update object created at step k
}

type c09WitState struct {
	w    *Witness
	idx  int
	time int64
}

func (h *c09Hist) windows() []c09Win {
	var out []c09Win
	n := h.c.n()
	for a := 0; a <= n; a++ {
		for b := a; b <= n; b++ {
			out = append(out, c09Win{a, b, false}, c09Win{a, b, true})
		}
	}
	return out
}

func cloneWitness(w *Witness) *Witness {
	s := *w.SignedAccumulator
	return &Witness{U: new(big.Int).Set(w.U), E: new(big.Int).Set(w.E), SignedAccumulator: &s, Updated: w.Updated}
}

// runScript executes the steps against fresh copies of the witnesses and checks every step
// against the model. Returns a violation signature and description, or "".
func (h *c09Hist) runScript(wins []c09Win, steps []c09Step) (sig string, what string, flags map[string]bool) {
	flags = map[string]bool{}
	pk := h.c.kp.Pk
	st := make([]*c09WitState, len(h.wits))
	for i, w := range h.wits {
		st[i] = &c09WitState{w: cloneWitness(w), idx: i, time: h.c.accs[i].Time}
	}
	objs := make([]*Update, len(steps))
	roots := make([]int, len(steps))
	applied := make([]int, len(h.wits))
	objUsers := map[int]map[int]bool{}
	for si, s := range steps {
		win := wins[s.win]
		var upd *Update
		src := si
		if s.shared >= 0 && s.shared < si && steps[s.shared].win == s.win {
			upd = objs[s.shared]
			src = roots[s.shared]
		} else {
			upd = h.c.window(win.a, win.b, win.resigned)
		}
		roots[si] = src
		objs[si] = upd
		ws := st[s.wit]
		// the time of the window is read from the live object (an adoption elsewhere may have
		// overwritten a shared signed-accumulator object; same index, same value)
		winTime := upd.SignedAccumulator.Accumulator.Time
		curTime := ws.w.SignedAccumulator.Accumulator.Time
		// ---- model
		expect, newIdx := "noop", ws.idx
		rev := h.revokedAt[s.wit]
		switch {
		case win.b == ws.idx:
			if winTime > curTime {
				expect = "adopt"
			}
		case win.b < ws.idx:
		case win.a > ws.idx+1:
			expect = "error-too-new"
		case rev > ws.idx && rev <= win.b:
			expect = "error-revoked"
		default:
			expect, newIdx = "ok", win.b
			applied[s.wit]++
		}
		if objUsers[src] == nil {
			objUsers[src] = map[int]bool{}
		}
		if expect == "ok" {
			objUsers[src][ws.idx] = true
			if len(objUsers[src]) >= 2 {
				flags["shared-object-served-two-indices"] = true
			}
		}
		if expect == "error-revoked" {
			flags["revoked-witness-updated-across-revocation"] = true
		}
		if applied[s.wit] >= 2 {
			flags["witness-received-two-applicable-updates"] = true
		}
		// ---- snapshot, apply
		snapU, snapE := new(big.Int).Set(ws.w.U), new(big.Int).Set(ws.w.E)
		snapPtr, snapS, snapUpd := ws.w.SignedAccumulator, *ws.w.SignedAccumulator, ws.w.Updated
		var err error
		if ps := vfh.Guard(func() { err = ws.w.Update(pk, upd) }); ps != "" {
			return ps, fmt.Sprintf("step %d", si), flags
		}
		desc := fmt.Sprintf("step %d: window [%d..%d] resigned=%v shared=%v on witness issued at %d (now at %d, revokedAt %d): model=%s got err=%v",
			si, win.a, win.b, win.resigned, s.shared >= 0, s.wit, ws.idx, rev, expect, err)
		got := "nil"
		if err != nil {
			got = "error"
			if errors.Is(err, ErrorRevoked) || err == ErrorRevoked {
				got = "error-revoked"
			}
		}
		switch expect {
		case "noop", "adopt", "ok":
			if got != "nil" {
				return "valid-update-fails:model-" + expect, desc, flags
			}
		case "error-too-new":
			if got == "nil" {
				return "gap-update-accepted", desc, flags
			}
		case "error-revoked":
			if got != "error-revoked" {
				if got == "nil" {
					return "revoked-witness-updated-successfully", desc, flags
				}
				return "revoked-witness-not-reported-as-revoked", desc, flags
			}
		}
		unchanged := ws.w.U.Cmp(snapU) == 0 && ws.w.E.Cmp(snapE) == 0 && ws.w.SignedAccumulator == snapPtr &&
			string(ws.w.SignedAccumulator.Data) == string(snapS.Data) && ws.w.SignedAccumulator.PKCounter == snapS.PKCounter &&
			ws.w.SignedAccumulator.Accumulator == snapS.Accumulator && ws.w.Updated.Equal(snapUpd)
		if (expect == "noop" || got != "nil") && !unchanged {
			return "failed-or-void-update-changes-witness", desc, flags
		}
		if ws.w.E.Cmp(snapE) != 0 {
			return "update-changes-witness-e", desc, flags
		}
		// ---- post-state
		gotIdx := int(ws.w.SignedAccumulator.Accumulator.Index)
		if gotIdx < ws.idx {
			return "witness-moved-backwards", desc, flags
		}
		if gotIdx != newIdx {
			return "witness-index-differs-from-model", desc + fmt.Sprintf(" index=%d want %d", gotIdx, newIdx), flags
		}
		ws.idx = newIdx
		if expect == "adopt" && ws.w.SignedAccumulator.Accumulator.Time != winTime {
			return "newer-signature-not-adopted", desc, flags
		}
		// validity against the harness-computed accumulator value
		ue := new(big.Int).Exp(ws.w.U, ws.w.E, pk.N)
		if rev == 0 || ws.idx < rev {
			if ue.Cmp(h.c.nus[ws.idx]) != 0 {
				return "non-revoked-witness-invalid-after-update", desc, flags
			}
			if ws.w.SignedAccumulator.Accumulator.Nu.Cmp(h.c.nus[ws.idx]) != 0 {
				return "witness-accumulator-value-wrong", desc, flags
			}
			if err := ws.w.Verify(pk); err != nil {
				return "non-revoked-witness-fails-Verify", desc, flags
			}
		}
		if rev != 0 {
			for j := rev; j <= h.c.n(); j++ {
				if ue.Cmp(h.c.nus[j]) == 0 {
					return "revoked-witness-valid-against-later-accumulator", desc, flags
				}
			}
		}
	}
	return "", "", flags
}

// all histories for n events: each event revokes a not-yet-revoked earlier witness or a fresh value
func c09Histories(n int) [][]int {
	var out [][]int
	cur := make([]int, n)
	var rec func(j int, revoked map[int]bool)
	rec = func(j int, revoked map[int]bool) {
		if j == n {
			out = append(out, append([]int{}, cur...))
			return
		}
		cur[j] = -1
		rec(j+1, revoked)
		for t := 0; t <= j; t++ { // witnesses issued at indices 0..j exist before event j+1
			if !revoked[t] {
				revoked[t] = true
				cur[j] = t
				rec(j+1, revoked)
				revoked[t] = false
			}
		}
	}
	rec(0, map[int]bool{})
	return out
}

func TestVF_C09_Exhaustive(t *testing.T) {
	rec := vfh.New(t, "C09")
	defer rec.Flush()
	seedLib(t, uint64(rec.Seed()))
	maxN := rec.N(3, 4)
	item := 0
	for n := 1; n <= maxN; n++ {
		maxLen := rec.N(2, 3)
		if n == 4 {
			maxLen = 2
		}
		if n == 3 && !rec.Thorough() {
			maxLen = 2
		}
		for hi, targets := range c09Histories(n) {
			item++
			if !rec.Mine(item) {
				continue
			}
			h := buildHist(hi+int(rec.Seed()), targets)
			wins := h.windows()
			nw, nwit := len(wins), len(h.wits)
			// scripts of length 1..maxLen; for length >= 2 the later steps may share the object of
			// an earlier step with the same window
			var steps []c09Step
			var enum func(depth int)
			enum = func(depth int) {
				if depth > 0 {
					sig, what, flags := h.runScript(wins, steps)
					nt := flags["shared-object-served-two-indices"] || flags["witness-received-two-applicable-updates"] || flags["revoked-witness-updated-across-revocation"]
					cls := fmt.Sprintf("exhaustive/n=%d/len=%d", n, depth)
					rec.Case(cls, nt, fmt.Sprintf("%v|%v", targets, steps))
					for f := range flags {
						rec.Class("flag/"+f, 1)
					}
					if depth == 2 {
						rec.Sample(func() any {
							return map[string]any{"revocation_targets_per_event": targets, "script(window,witness,sharedWithStep)": fmt.Sprint(steps), "windows": len(wins)}
						})
					}
					if sig != "" {
						rec.FailT(sig, map[string]any{"targets": targets, "script": fmt.Sprint(steps), "what": what})
					}
				}
				if depth == maxLen {
					return
				}
				for w := 0; w < nw; w++ {
					// thin out the second and third step in the quick tier for n = 3
					if depth >= 1 && n >= 4 && (w+depth+hi)%3 != 0 {
						continue // n = 4 (thorough only): a third of the second steps
					}
					if depth >= 2 && (w+hi)%2 != 0 {
						continue
					}
					for wi := 0; wi < nwit; wi++ {
						for _, sh := range []int{-1, 0, 1} {
							if sh >= depth {
								continue
							}
							if sh >= 0 && steps[sh].win != w {
								continue
							}
							steps = append(steps, c09Step{win: w, wit: wi, shared: sh})
							enum(depth + 1)
							steps = steps[:len(steps)-1]
						}
					}
				}
			}
			enum(0)
		}
	}
	rec.Note("exhaustive_bound", fmt.Sprintf("histories with n<=%d events, all windows (a<=b, original and re-signed accumulator), scripts up to the stated length; thinning of later steps as noted in the source", maxN))
	rec.SetExhaustive(true)
}

func TestVF_C09_Random(t *testing.T) {
	rec := vfh.New(t, "C09")
	defer rec.Flush()
	rec.Check(func(rt *rapid.T) {
		seedLib(t, rapid.Uint64().Draw(rt, "libSeed"))
		n := rapid.IntRange(1, 12).Draw(rt, "n")
		targets := make([]int, n)
		revoked := map[int]bool{}
		for j := 0; j < n; j++ {
			targets[j] = -1
			if rapid.Bool().Draw(rt, "revokeWitness") {
				t := rapid.IntRange(0, j).Draw(rt, "target")
				if !revoked[t] {
					targets[j] = t
					revoked[t] = true
				}
			}
		}
		h := buildHist(rapid.IntRange(0, 3).Draw(rt, "key"), targets)
		wins := h.windows()
		ns := rapid.IntRange(1, 10).Draw(rt, "steps")
		var steps []c09Step
		for i := 0; i < ns; i++ {
			// windows biased towards applicable ones: pick a witness, then a window near it
			s := c09Step{wit: rapid.IntRange(0, n).Draw(rt, "wit"), shared: -1}
			if i > 0 && rapid.IntRange(0, 2).Draw(rt, "share") == 0 {
				k := rapid.IntRange(0, i-1).Draw(rt, "shareWith")
				s.win, s.shared = steps[k].win, k
			} else {
				s.win = rapid.IntRange(0, len(wins)-1).Draw(rt, "win")
			}
			steps = append(steps, s)
		}
		sig, what, flags := h.runScript(wins, steps)
		nt := flags["shared-object-served-two-indices"] || flags["witness-received-two-applicable-updates"] || flags["revoked-witness-updated-across-revocation"]
		rec.Case(fmt.Sprintf("random/n=%d", n), nt, fmt.Sprintf("%v|%v", targets, steps))
		for f := range flags {
			rec.Class("flag/"+f, 1)
		}
		if sig != "" {
			rec.Fail(rt, sig, map[string]any{"targets": targets, "script(window,witness,sharedWithStep)": fmt.Sprint(steps), "windows(a,b,resigned)": fmt.Sprint(wins), "what": what})
		}
	})
}

// TestVF_C09_FailedUpdate: every way an applicable-looking update can fail - a gap, a revoked value,
// an issuer-signed accumulator whose value does not belong to its events, a witness whose u was
// damaged in storage - must return an error and leave the witness exactly as it was.
func TestVF_C09_FailedUpdate(t *testing.T) {
	rec := vfh.New(t, "C09")
	defer rec.Flush()
	rec.Check(func(rt *rapid.T) {
		seedLib(t, rapid.Uint64().Draw(rt, "libSeed"))
		n := rapid.IntRange(1, 8).Draw(rt, "n")
		targets := make([]int, n)
		revoked := map[int]bool{}
		for j := 0; j < n; j++ {
			targets[j] = -1
			if rapid.Bool().Draw(rt, "revokeWitness") {
				t := rapid.IntRange(0, j).Draw(rt, "target")
				if !revoked[t] {
					targets[j] = t
					revoked[t] = true
				}
			}
		}
		h := buildHist(rapid.IntRange(0, 3).Draw(rt, "key"), targets)
		pk := h.c.kp.Pk
		wi := rapid.IntRange(0, n-1).Draw(rt, "wit")
		w := cloneWitness(h.wits[wi])
		b := rapid.IntRange(wi+1, n).Draw(rt, "b")
		a := rapid.IntRange(0, wi+1).Draw(rt, "a")
		kind := rapid.SampledFrom([]string{"inconsistent-accumulator-value", "damaged-witness-u", "gap", "revoked", "inconsistent-accumulator-value-after-a-good-update"}).Draw(rt, "kind")
		upd := h.c.window(a, b, rapid.Bool().Draw(rt, "resigned"))
		rev := h.revokedAt[wi]
		switch kind {
		case "inconsistent-accumulator-value-after-a-good-update":
			if rev != 0 || wi+1 >= n {
				rt.Skip("needs a never-revoked witness and two more events")
			}
			mid := rapid.IntRange(wi+1, n-1).Draw(rt, "mid")
			if err := w.Update(pk, h.c.window(0, mid, false)); err != nil {
				rec.Fail(rt, "valid-update-fails:model-ok", map[string]any{"targets": targets, "wit": wi, "mid": mid, "err": fmt.Sprint(err)})
				return
			}
			wi = mid
			b = rapid.IntRange(mid+1, n).Draw(rt, "b2")
			upd = h.c.window(0, b, false)
			fallthrough
		case "inconsistent-accumulator-value":
			if rev != 0 && rev <= b {
				rt.Skip("revoked in the window")
			}
			acc := *h.c.accs[b]
			acc.Nu = new(big.Int).Exp(acc.Nu, bi(int64(rapid.IntRange(2, 9).Draw(rt, "pow"))), pk.N)
			upd.SignedAccumulator = h.c.sign(&acc)
		case "damaged-witness-u":
			if rev != 0 && rev <= b {
				rt.Skip("revoked in the window")
			}
			w.U = new(big.Int).Mod(new(big.Int).Mul(w.U, bi(int64(rapid.IntRange(2, 9).Draw(rt, "mul")))), pk.N)
		case "gap":
			if wi+2 > b {
				rt.Skip("no room for a gap")
			}
			upd = h.c.window(rapid.IntRange(wi+2, b).Draw(rt, "gapStart"), b, false)
		case "revoked":
			if rev == 0 || rev > b {
				rt.Skip("not revoked in the window")
			}
		}
		snapU, snapE := new(big.Int).Set(w.U), new(big.Int).Set(w.E)
		snapPtr, snapS, snapUpd := w.SignedAccumulator, *w.SignedAccumulator, w.Updated
		var err error
		det := map[string]any{"targets": targets, "witness_at": wi, "window": []int{a, b}, "kind": kind}
		if ps := vfh.Guard(func() { err = w.Update(pk, upd) }); ps != "" {
			rec.Fail(rt, ps, det)
			return
		}
		rec.Case("failed-update/"+kind, true, fmt.Sprintf("%v|%d|%d|%d|%s", targets, wi, a, b, kind))
		if err == nil {
			rec.Fail(rt, "failing-update-reported-as-success:"+kind, det)
			return
		}
		unchanged := w.U.Cmp(snapU) == 0 && w.E.Cmp(snapE) == 0 && w.SignedAccumulator == snapPtr &&
			string(w.SignedAccumulator.Data) == string(snapS.Data) && w.SignedAccumulator.PKCounter == snapS.PKCounter &&
			w.SignedAccumulator.Accumulator == snapS.Accumulator && w.Updated.Equal(snapUpd)
		if !unchanged {
			det["err"] = fmt.Sprint(err)
			rec.Fail(rt, "failed-or-void-update-changes-witness", det)
		}
	})
}

// TestVF_C09_Prepended: update messages assembled by the receiver - a window [a..b] to which older
// events [c..d] (decoded from the wire, with and without a precomputed product) were prepended -
// applied to witnesses at every index they can serve. The model is the one of runScript.
func TestVF_C09_Prepended(t *testing.T) {
	rec := vfh.New(t, "C09")
	defer rec.Flush()
	seedLib(t, uint64(rec.Seed())+5)
	maxN := rec.N(4, 6)
	item := 0
	for n := 2; n <= maxN; n++ {
		hists := c09Histories(n)
		for hi, targets := range hists {
			// all histories for n <= 3; a rotating sample for longer ones
			if n > 3 && (hi+int(rec.Seed()))%(len(hists)/12+1) != 0 {
				continue
			}
			item++
			if !rec.Mine(item) {
				continue
			}
			h := buildHist(hi+int(rec.Seed()), targets)
			pk := h.c.kp.Pk
			for a := 1; a <= n; a++ {
				for b := a; b <= n; b++ {
					for c := 0; c < a; c++ {
						for d := a - 1; d <= b; d++ {
							if c == 0 && d == 0 {
								continue // the list would hold only the initial event
							}
							for _, how := range []string{"json", "cbor"} {
								for cpi, cp := range []bool{true, false, true} {
									listViaReuse = nil
									if cpi == 2 {
										listViaReuse = h.c.events[0 : b+1] // parsed into the same object before
									}
									el, ok := listViaP(h.c.events[c:d+1], how, nil, cp)
									listViaReuse = nil
									if !ok {
										continue
									}
									upd := transportMust(h.c.window(a, b, false), how)
									if _, err := upd.Verify(pk); err != nil {
										rec.Control(false, "authentic update rejected before Prepend")
										continue
									}
									var err error
									if ps := vfh.Guard(func() { err = upd.Prepend(el) }); ps != "" {
										rec.FailT(ps+":Update.Prepend", map[string]any{"targets": targets, "window": []int{a, b}, "list": []int{c, d}})
										continue
									}
									det := map[string]any{"targets": targets, "update_window": []int{a, b}, "prepended_list": []int{c, d}, "transport": how, "list_decoded_with_product": cp}
									if err != nil {
										rec.FailT("authentic-older-events-rejected:Update.Prepend", det)
										continue
									}
									overlap := d >= a
									// every witness position twice: with the update object shared by all
									// positions (in ascending order), and as the FIRST user of a freshly
									// assembled object (what an object caches from its first use differs)
									for pp := 0; pp <= 2*b+1; pp++ {
										p := pp
										useUpd := upd
										if pp > b {
											p = pp - b - 1
											el2, ok2 := listViaP(h.c.events[c:d+1], how, nil, cp)
											fresh := transportMust(h.c.window(a, b, false), how)
											if _, err := fresh.Verify(pk); err != nil || !ok2 || fresh.Prepend(el2) != nil {
												continue
											}
											useUpd = fresh
										}
										upd := useUpd
										w := cloneWitness(h.wits[p])
										rev := h.revokedAt[p]
										expect := "ok"
										switch {
										case p == b:
											expect = "noop"
										case c > p+1:
											expect = "error-too-new"
										case rev > p && rev <= b:
											expect = "error-revoked"
										}
										snapU := new(big.Int).Set(w.U)
										var uerr error
										if ps := vfh.Guard(func() { uerr = w.Update(pk, upd) }); ps != "" {
											rec.FailT(ps+":Witness.Update(prepended)", det)
											continue
										}
										rec.Case(fmt.Sprintf("prepended/overlap=%v/product=%v/%s", overlap, cp, expect), overlap || cp, fmt.Sprintf("%v|%d|%d|%d|%d|%s|%v|%d", targets, a, b, c, d, how, cp, p))
										det["witness_at"] = p
										det["model"] = expect
										det["err"] = fmt.Sprint(uerr)
										switch expect {
										case "ok":
											if uerr != nil {
												rec.FailT("valid-update-fails:prepended", det)
											} else if new(big.Int).Exp(w.U, w.E, pk.N).Cmp(h.c.nus[b]) != 0 || int(w.SignedAccumulator.Accumulator.Index) != b {
												rec.FailT("non-revoked-witness-invalid-after-update:prepended", det)
											}
										case "noop":
											if uerr != nil || w.U.Cmp(snapU) != 0 {
												rec.FailT("failed-or-void-update-changes-witness:prepended", det)
											}
										case "error-too-new":
											if uerr == nil {
												rec.FailT("gap-update-accepted:prepended", det)
											} else if w.U.Cmp(snapU) != 0 {
												rec.FailT("failed-or-void-update-changes-witness:prepended", det)
											}
										case "error-revoked":
											if uerr == nil {
												rec.FailT("revoked-witness-updated-successfully:prepended", det)
											} else if !errors.Is(uerr, ErrorRevoked) && uerr != ErrorRevoked {
												rec.FailT("revoked-witness-not-reported-as-revoked:prepended", det)
											} else if w.U.Cmp(snapU) != 0 {
												rec.FailT("failed-or-void-update-changes-witness:prepended", det)
											}
										}
									}
								}
							}
						}
					}
				}
			}
		}
	}
}
