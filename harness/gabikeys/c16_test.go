package gabikeys_test

// C16 - Generated issuer keys are well-formed; generation terminates and leaves no worker.
// Volume generation at toy lengths (sequential and concurrent), each key judged by independent
// predicates written with math/big; goroutine accounting around every batch.

import (
	"bytes"
	"crypto/rand"
	"encoding/base64"
	"errors"
	"fmt"
	"io"
	gobig "math/big"
	"runtime"
	"runtime/pprof"
	"sync"
	"sync/atomic"
	"testing"
	"time"

	"github.com/privacybydesign/gabi"
	"github.com/privacybydesign/gabi/big"
	"github.com/privacybydesign/gabi/gabikeys"
	"github.com/privacybydesign/gabi/internal/vfh"
	"github.com/privacybydesign/gabi/keyproof"
	"github.com/privacybydesign/gabi/revocation"
	"github.com/privacybydesign/gabi/signed"
	"github.com/sirupsen/logrus"
)

func init() {
	gabi.Logger.SetLevel(logrus.FatalLevel)
}

func params(ln uint) *gabikeys.SystemParameters {
	if p, ok := gabikeys.DefaultSystemParameters[int(ln)]; ok {
		return p
	}
	base := gabikeys.BaseParameters{LePrime: 120, Lh: 256, Lm: 256, Ln: ln, Lstatzk: 80}
	return &gabikeys.SystemParameters{BaseParameters: base, DerivedParameters: gabikeys.MakeDerivedParameters(base)}
}

func isPrime(x *gobig.Int) bool {
	if x.BitLen() <= 32 {
		v := x.Uint64()
		if v < 2 {
			return false
		}
		for d := uint64(2); d*d <= v; d++ {
			if v%d == 0 {
				return false
			}
		}
		return true
	}
	return x.ProbablyPrime(40)
}

// judgeKey returns a violation signature or "".
func judgeKey(sk *gabikeys.PrivateKey, pk *gabikeys.PublicKey, p *gabikeys.SystemParameters, nattr int, counter uint, expiry time.Time) (string, string) {
	if sk == nil || pk == nil {
		return "nil-key", ""
	}
	P, Q := sk.P.Go(), sk.Q.Go()
	one, eight := gobig.NewInt(1), gobig.NewInt(8)
	pp := new(gobig.Int).Rsh(P, 1)
	qp := new(gobig.Int).Rsh(Q, 1)
	if !isPrime(P) || !isPrime(Q) || !isPrime(pp) || !isPrime(qp) {
		return "p-or-q-not-a-safe-prime", ""
	}
	if P.Cmp(Q) == 0 {
		return "p-equals-q", ""
	}
	if P.BitLen() != int(p.Ln/2) || Q.BitLen() != int(p.Ln/2) {
		return "prime-of-wrong-length", fmt.Sprintf("%d/%d bits", P.BitLen(), Q.BitLen())
	}
	N := new(gobig.Int).Mul(P, Q)
	if N.BitLen() != int(p.Ln) {
		return "modulus-of-wrong-length", fmt.Sprintf("%d bits, want %d", N.BitLen(), p.Ln)
	}
	if sk.N.Go().Cmp(N) != 0 || pk.N.Go().Cmp(N) != 0 {
		return "modulus-inconsistent", ""
	}
	if sk.PPrime.Go().Cmp(pp) != 0 || sk.QPrime.Go().Cmp(qp) != 0 || sk.Order.Go().Cmp(new(gobig.Int).Mul(pp, qp)) != 0 {
		return "derived-private-parameters-inconsistent", ""
	}
	m8 := func(x *gobig.Int) int64 { return new(gobig.Int).Mod(x, eight).Int64() }
	if m8(P) == m8(Q) {
		return "p-congruent-q-mod-8", ""
	}
	if m8(pp) == 1 || m8(qp) == 1 {
		return "pprime-or-qprime-is-1-mod-8", fmt.Sprintf("p'=%d q'=%d mod 8", m8(pp), m8(qp))
	}
	if m8(P) == 1 || m8(Q) == 1 {
		return "p-or-q-is-1-mod-8", ""
	}
	if !keyproof.CanProve(sk.PPrime, sk.QPrime) {
		return "key-correctness-proof-not-possible", ""
	}
	if err := sk.Validate(); err != nil {
		return "PrivateKey.Validate-fails", err.Error()
	}
	if len(pk.R) != nattr {
		return "wrong-number-of-bases", fmt.Sprint(len(pk.R))
	}
	if pk.Params != p {
		return "params-not-those-passed", ""
	}
	if pk.Counter != counter || sk.Counter != counter || pk.ExpiryDate != expiry.Unix() || sk.ExpiryDate != expiry.Unix() {
		return "counter-or-expiry-wrong", ""
	}
	qr := func(name string, x *big.Int) string {
		if x == nil {
			return name + "-missing"
		}
		v := x.Go()
		if v.Cmp(gobig.NewInt(2)) < 0 || v.Cmp(N) >= 0 || new(gobig.Int).GCD(nil, nil, v, N).Cmp(one) != 0 {
			return name + "-not-in-[2,N)-or-not-a-unit"
		}
		if gobig.Jacobi(new(gobig.Int).Mod(v, P), P) != 1 || gobig.Jacobi(new(gobig.Int).Mod(v, Q), Q) != 1 {
			return name + "-not-a-quadratic-residue"
		}
		return ""
	}
	for name, x := range map[string]*big.Int{"Z": pk.Z, "S": pk.S, "G": pk.G, "H": pk.H} {
		if s := qr(name, x); s != "" {
			return "base-" + s, ""
		}
	}
	for i, r := range pk.R {
		if s := qr("R", r); s != "" {
			return "base-" + s, fmt.Sprintf("R_%d", i)
		}
	}
	S := pk.S.Go()
	if new(gobig.Int).Exp(S, pp, N).Cmp(one) == 0 || new(gobig.Int).Exp(S, qp, N).Cmp(one) == 0 {
		// S does not generate QR_n (probability ~ 2^-(Ln/2)): membership of Z, R_i in <S> undecided
		return "", "undecided:S-not-a-generator"
	}
	// revocation key pair
	if !pk.RevocationSupported() || !sk.RevocationSupported() || sk.ECDSA == nil || pk.ECDSA == nil {
		return "revocation-material-missing", ""
	}
	if !sk.ECDSA.PublicKey.Equal(pk.ECDSA) {
		return "revocation-public-key-does-not-match-private-key", ""
	}
	if b, err := base64.StdEncoding.DecodeString(pk.ECDSAString); err != nil {
		return "revocation-public-key-string-undecodable", ""
	} else if k, err := signed.UnmarshalPublicKey(b); err != nil || !k.Equal(pk.ECDSA) {
		return "revocation-public-key-string-differs", ""
	}
	if b, err := base64.StdEncoding.DecodeString(sk.ECDSAString); err != nil {
		return "revocation-private-key-string-undecodable", ""
	} else if k, err := signed.UnmarshalPrivateKey(b); err != nil || !k.Equal(sk.ECDSA) {
		return "revocation-private-key-string-differs", ""
	}
	// smoke: a CL signature and a signed accumulator made with the key verify
	ms := []*big.Int{big.NewInt(12345)}
	sig, err := gabi.SignMessageBlock(sk, pk, ms)
	if err != nil || !sig.Verify(pk, ms) {
		return "signature-made-with-generated-key-does-not-verify", fmt.Sprint(err)
	}
	upd, err := revocation.NewAccumulator(sk)
	if err != nil {
		return "accumulator-creation-fails", err.Error()
	}
	upd.SignedAccumulator.Accumulator = nil
	if _, err := upd.Verify(pk); err != nil {
		return "signed-accumulator-of-generated-key-does-not-verify", err.Error()
	}
	return "", ""
}

func goroutineDump() string {
	var b bytes.Buffer
	_ = pprof.Lookup("goroutine").WriteTo(&b, 1)
	s := b.String()
	if len(s) > 5000 {
		s = s[:5000]
	}
	return s
}

// settle waits until the goroutine count is back to base (or 5 s passed); returns the excess.
func settle(base int) int {
	deadline := time.Now().Add(5 * time.Second)
	for {
		n := runtime.NumGoroutine()
		if n <= base || time.Now().After(deadline) {
			return n - base
		}
		time.Sleep(20 * time.Millisecond)
	}
}

func TestVF_C16_Keys(t *testing.T) {
	rec := vfh.New(t, "C16")
	defer rec.Flush()
	type job struct {
		ln       uint
		nattr    int
		parallel int
	}
	var jobs []job
	sizes := []uint{128, 160, 192, 256}
	nsmall := rec.N(160, 1600)
	for i := 0; i < nsmall; i++ {
		jobs = append(jobs, job{sizes[i%len(sizes)], 1 + (i*7)%20, []int{1, 1, 2, 4, 8}[i%5]})
	}
	for i := 0; i < rec.N(8, 40); i++ {
		jobs = append(jobs, job{[]uint{320, 384, 512}[i%3], 1 + i%6, 1 + i%2})
	}
	if rec.Thorough() && rec.Shard() < 3 {
		jobs = append(jobs, job{1024, 3, 1})
	}
	if rec.Thorough() {
		// half-lengths that are not a multiple of 8 bits
		jobs = append(jobs, job{130, 2, 1}, job{146, 2, 2}, job{258, 2, 1})
	}
	seedOff := int(rec.Seed())
	defer runtime.GOMAXPROCS(runtime.GOMAXPROCS(0))
	for ji, j := range jobs {
		if !rec.Mine(ji) {
			continue
		}
		p := params(j.ln)
		runtime.GOMAXPROCS([]int{16, 4, 2, 1, 16, 8}[ji%6]) // the worker count of the safe-prime generator follows GOMAXPROCS
		base := runtime.NumGoroutine()
		type res struct {
			sk  *gabikeys.PrivateKey
			pk  *gabikeys.PublicKey
			err error
			dur time.Duration
			ctr uint
		}
		out := make([]res, j.parallel)
		exp := time.Unix(1900000000+int64(ji), 0)
		var wg sync.WaitGroup
		for k := 0; k < j.parallel; k++ {
			wg.Add(1)
			go func(k int) {
				defer wg.Done()
				t0 := time.Now()
				ctr := uint(seedOff + ji*10 + k)
				sk, pk, err := gabikeys.GenerateKeyPair(p, j.nattr, ctr, exp)
				out[k] = res{sk, pk, err, time.Since(t0), ctr}
			}(k)
		}
		done := make(chan struct{})
		go func() { wg.Wait(); close(done) }()
		budget := 10 * time.Minute
		select {
		case <-done:
		case <-time.After(budget):
			t.Fatalf("key generation at Ln=%d did not finish within %v (inconclusive)", j.ln, budget)
		}
		for k, r := range out {
			cls := fmt.Sprintf("keygen/Ln=%d/parallel=%d", j.ln, j.parallel)
			fp := ""
			if r.pk != nil && r.pk.N != nil {
				fp = r.pk.N.String()
			}
			rec.Case(cls, true, fp)
			det := map[string]any{"Ln": j.ln, "attributes": j.nattr, "parallel": j.parallel}
			if r.err != nil {
				rec.FailT("key-generation-error", det)
				continue
			}
			sig, what := judgeKey(r.sk, r.pk, p, j.nattr, r.ctr, exp)
			if sig == "" && what != "" {
				rec.Class(what, 1)
			}
			if k == 0 {
				rec.Sample(func() any {
					return map[string]any{"Ln": j.ln, "attributes": j.nattr, "parallel": j.parallel, "N": r.pk.N.String(), "seconds": r.dur.Seconds()}
				})
			}
			if sig != "" {
				det["what"] = what
				det["p"], det["q"] = r.sk.P.String(), r.sk.Q.String()
				rec.FailT(sig, det)
			}
		}
		if excess := settle(base); excess > 0 {
			rec.FailT("safe-prime-workers-left-running-after-key-generation", map[string]any{"Ln": j.ln, "parallel": j.parallel, "goroutines_left": excess, "dump": goroutineDump()})
			// raise the baseline so that one leak is not reported for every following job
		}
	}
}

// ---------- injected fault: the random source fails during key generation

type faultyReader struct {
	r          io.Reader
	failAt     int64 // the read (1-based) at which failures start
	persistent bool
	reads      atomic.Int64
	failed     atomic.Int64
}

func (f *faultyReader) Read(p []byte) (int, error) {
	n := f.reads.Add(1)
	if n == f.failAt || (f.persistent && n > f.failAt) {
		f.failed.Add(1)
		return 0, errors.New("vf: injected failure of the random source")
	}
	return f.r.Read(p)
}

// TestVF_C16_RandomSourceFault: key generation with a random source that fails once, or from some
// read on, must still terminate - with an error or (if the fault came too late) with a well-formed
// key - must not crash the process, and must leave no safe-prime worker behind.
func TestVF_C16_RandomSourceFault(t *testing.T) {
	rec := vfh.New(t, "C16")
	defer rec.Flush()
	defer runtime.GOMAXPROCS(runtime.GOMAXPROCS(0))
	orig := rand.Reader
	defer func() { rand.Reader = orig }()
	n := rec.N(60, 600)
	for i := 0; i < n; i++ {
		if !rec.Mine(i) {
			continue
		}
		s := uint64(rec.Seed())*7919 + uint64(i)*104729
		ln := []uint{160, 192, 256, 320}[i%4]
		persistent := i%2 == 0
		// the first reads happen within microseconds (several workers start at once), later ones in
		// the middle of the search: cover both
		failAt := int64(1 + s%3)
		if i%3 != 0 {
			failAt = int64(1 + s%4000)
		}
		runtime.GOMAXPROCS([]int{16, 4, 2, 1, 8}[i%5])
		base := runtime.NumGoroutine()
		fr := &faultyReader{r: orig, failAt: failAt, persistent: persistent}
		rand.Reader = fr
		p := params(ln)
		type res struct {
			sk  *gabikeys.PrivateKey
			pk  *gabikeys.PublicKey
			err error
		}
		ch := make(chan res, 1)
		exp := time.Unix(1900000000, 0)
		go func() {
			sk, pk, err := gabikeys.GenerateKeyPair(p, 2, 1, exp)
			ch <- res{sk, pk, err}
		}()
		var r res
		select {
		case r = <-ch:
		case <-time.After(5 * time.Minute):
			rand.Reader = orig
			t.Fatalf("key generation with a failing random source did not return within 5 minutes (inconclusive)")
		}
		rand.Reader = orig
		det := map[string]any{"Ln": ln, "fails_at_read": failAt, "persistent": persistent, "gomaxprocs": runtime.GOMAXPROCS(0), "failures_delivered": fr.failed.Load()}
		cls := "rng-fault/never-reached"
		if fr.failed.Load() > 0 {
			cls = fmt.Sprintf("rng-fault/persistent=%v/early=%v", persistent, failAt <= 3)
		}
		rec.Case(cls, fr.failed.Load() > 0, fmt.Sprintf("rf|%d|%d|%v|%d", ln, failAt, persistent, i))
		if i < 3 {
			rec.Sample(func() any { return det })
		}
		if r.err == nil {
			if sig, what := judgeKey(r.sk, r.pk, p, 2, 1, exp); sig != "" {
				det["what"] = what
				rec.FailT(sig+":after-random-source-fault", det)
			}
		}
		if excess := settle(base); excess > 0 {
			det["goroutines_left"], det["dump"] = excess, goroutineDump()
			rec.FailT("safe-prime-workers-left-running-after-random-source-fault", det)
		}
	}
}
