package gabikeys_test

// C18 (b) key documents round-trip field by field through all three readers;
//     (c) every single-element corruption of a key document is refused with an error when the
//         element is mandatory or numeric (never a panic, never a key object);
//     (e) private-key files are never left readable by group or others.

import (
	"bytes"
	"fmt"
	"os"
	"path/filepath"
	"regexp"
	"strings"
	"syscall"
	"testing"
	"time"

	"github.com/privacybydesign/gabi/big"
	"github.com/privacybydesign/gabi/gabikeys"
	"github.com/privacybydesign/gabi/internal/vfh"
	"github.com/privacybydesign/gabi/internal/vfk"
)

func pubDoc(pk *gabikeys.PublicKey) string {
	var b bytes.Buffer
	if _, err := pk.WriteTo(&b); err != nil {
		panic(err)
	}
	return b.String()
}

func privDoc(sk *gabikeys.PrivateKey) string {
	var b bytes.Buffer
	if _, err := sk.WriteTo(&b); err != nil {
		panic(err)
	}
	return b.String()
}

func eqInt(a, b *big.Int) bool {
	if a == nil || b == nil {
		return a == nil && b == nil
	}
	return a.Cmp(b) == 0
}

func samePub(a, b *gabikeys.PublicKey) string {
	switch {
	case a.Counter != b.Counter:
		return "Counter"
	case a.ExpiryDate != b.ExpiryDate:
		return "ExpiryDate"
	case !eqInt(a.N, b.N):
		return "N"
	case !eqInt(a.Z, b.Z):
		return "Z"
	case !eqInt(a.S, b.S):
		return "S"
	case !eqInt(a.G, b.G):
		return "G"
	case !eqInt(a.H, b.H):
		return "H"
	case len(a.R) != len(b.R):
		return "len(R)"
	case a.EpochLength != b.EpochLength:
		return "EpochLength"
	case a.ECDSAString != b.ECDSAString:
		return "ECDSAString"
	case (a.ECDSA == nil) != (b.ECDSA == nil) || (a.ECDSA != nil && !a.ECDSA.Equal(b.ECDSA)):
		return "ECDSA"
	case a.Params != b.Params:
		return "Params"
	}
	for i := range a.R {
		if !eqInt(a.R[i], b.R[i]) {
			return fmt.Sprintf("R[%d]", i)
		}
	}
	return ""
}

func samePriv(a, b *gabikeys.PrivateKey) string {
	switch {
	case a.Counter != b.Counter:
		return "Counter"
	case a.ExpiryDate != b.ExpiryDate:
		return "ExpiryDate"
	case !eqInt(a.P, b.P):
		return "P"
	case !eqInt(a.Q, b.Q):
		return "Q"
	case !eqInt(a.PPrime, b.PPrime):
		return "PPrime"
	case !eqInt(a.QPrime, b.QPrime):
		return "QPrime"
	case !eqInt(a.N, b.N):
		return "N"
	case !eqInt(a.Order, b.Order):
		return "Order"
	case a.ECDSAString != b.ECDSAString:
		return "ECDSAString"
	case (a.ECDSA == nil) != (b.ECDSA == nil) || (a.ECDSA != nil && !a.ECDSA.Equal(b.ECDSA)):
		return "ECDSA"
	}
	return ""
}

type pubReader struct {
	name string
	f    func(doc string, dir string) (*gabikeys.PublicKey, error)
}

var pubReaders = []pubReader{
	{"FromXML", func(doc, _ string) (*gabikeys.PublicKey, error) { return gabikeys.NewPublicKeyFromXML(doc) }},
	{"FromBytes", func(doc, _ string) (*gabikeys.PublicKey, error) { return gabikeys.NewPublicKeyFromBytes([]byte(doc)) }},
	{"FromFile", func(doc, dir string) (*gabikeys.PublicKey, error) {
		p := filepath.Join(dir, "pk.xml")
		if err := os.WriteFile(p, []byte(doc), 0o600); err != nil {
			panic(err)
		}
		return gabikeys.NewPublicKeyFromFile(p)
	}},
}

type privReader struct {
	name string
	f    func(doc string, dir string, demo bool) (*gabikeys.PrivateKey, error)
}

var privReaders = []privReader{
	{"FromXML", func(doc, _ string, demo bool) (*gabikeys.PrivateKey, error) {
		return gabikeys.NewPrivateKeyFromXML(doc, demo)
	}},
	{"FromFile", func(doc, dir string, demo bool) (*gabikeys.PrivateKey, error) {
		p := filepath.Join(dir, "sk.xml")
		if err := os.WriteFile(p, []byte(doc), 0o600); err != nil {
			panic(err)
		}
		return gabikeys.NewPrivateKeyFromFile(p, demo)
	}},
}

func TestVF_C18_KeyRoundTrip(t *testing.T) {
	rec := vfh.New(t, "C18")
	defer rec.Flush()
	dir := t.TempDir()
	for nb := 0; nb <= 20; nb++ {
		for _, rev := range []bool{false, true} {
			kp := vfk.K1024(nb%3, nb, rev)
			doc := pubDoc(kp.Pk)
			for _, r := range pubReaders {
				var got *gabikeys.PublicKey
				var err error
				ps := vfh.Guard(func() { got, err = r.f(doc, dir) })
				rec.Case(fmt.Sprintf("roundtrip/public/%s/revocation=%v", r.name, rev), true, fmt.Sprintf("pk|%d|%v|%s", nb, rev, r.name))
				det := map[string]any{"bases": nb, "revocation": rev, "reader": r.name}
				if ps != "" {
					rec.FailT(ps+":public-key-round-trip", det)
					continue
				}
				if err != nil {
					det["err"] = err.Error()
					rec.FailT("valid-public-key-document-refused", det)
					continue
				}
				if f := samePub(kp.Pk, got); f != "" {
					det["field"] = f
					rec.FailT("public-key-round-trip-changes-field", det)
				}
				if got.RevocationSupported() != rev {
					rec.FailT("public-key-round-trip-changes-revocation-support", det)
				}
			}
			sdoc := privDoc(kp.Sk)
			for _, r := range privReaders {
				for _, demo := range []bool{false, true} {
					var got *gabikeys.PrivateKey
					var err error
					ps := vfh.Guard(func() { got, err = r.f(sdoc, dir, demo) })
					rec.Case(fmt.Sprintf("roundtrip/private/%s/revocation=%v", r.name, rev), true, fmt.Sprintf("sk|%d|%v|%s|%v", nb, rev, r.name, demo))
					det := map[string]any{"bases": nb, "revocation": rev, "reader": r.name, "demo": demo}
					if ps != "" {
						rec.FailT(ps+":private-key-round-trip", det)
						continue
					}
					if err != nil {
						det["err"] = err.Error()
						rec.FailT("valid-private-key-document-refused", det)
						continue
					}
					if f := samePriv(kp.Sk, got); f != "" {
						det["field"] = f
						rec.FailT("private-key-round-trip-changes-field", det)
					}
				}
			}
		}
	}
	rec.Sample(func() any {
		return map[string]any{"kind": "key round trips", "bases": "0..20", "revocation": "with/without", "readers": "FromXML, FromBytes, FromFile"}
	})
}

type docCorruption struct {
	name   string
	f      func(doc string) (string, bool)
	expect string // "error" or "ok-without-revocation" or "ok"
}

func elemRe(name string) *regexp.Regexp {
	return regexp.MustCompile(`(?s)<` + name + `>(.*?)</` + name + `>`)
}

func numberCorruptions(elem string, mandatoryOrNumeric bool) []docCorruption {
	re := elemRe(elem)
	rep := func(f func(v string) string) func(string) (string, bool) {
		return func(doc string) (string, bool) {
			if !re.MatchString(doc) {
				return doc, false
			}
			return re.ReplaceAllStringFunc(doc, func(m string) string {
				v := re.FindStringSubmatch(m)[1]
				return "<" + elem + ">" + f(v) + "</" + elem + ">"
			}), true
		}
	}
	return []docCorruption{
		{elem + ":negated", rep(func(v string) string { return "-" + v }), "error"},
		{elem + ":letters", rep(func(v string) string { return v[:len(v)/2] + "a" + v[len(v)/2:] }), "error"},
		{elem + ":empty", rep(func(string) string { return "" }), "error"},
		{elem + ":inner-space", rep(func(v string) string { return v[:len(v)/2] + " " + v[len(v)/2:] }), "error"},
		{elem + ":hex", rep(func(string) string { return "0x1F" }), "error"},
		{elem + ":float", rep(func(v string) string { return v + ".5" }), "error"},
	}
}

func deleteElem(elem string) func(string) (string, bool) {
	re := regexp.MustCompile(`(?s)\s*<` + elem + `[ >].*?</` + elem + `>`)
	return func(doc string) (string, bool) {
		if !re.MatchString(doc) {
			return doc, false
		}
		return re.ReplaceAllString(doc, ""), true
	}
}

func TestVF_C18_MalformedKeys(t *testing.T) {
	rec := vfh.New(t, "C18")
	defer rec.Flush()
	dir := t.TempDir()
	one := big.NewInt(1)

	// ---------- public key documents
	for _, rev := range []bool{true, false} {
		kp := vfk.K1024(1, 3, rev)
		doc := pubDoc(kp.Pk)
		var cs []docCorruption
		for _, e := range []string{"n", "Z", "S"} {
			cs = append(cs, docCorruption{e + ":deleted", deleteElem(e), "error"})
			cs = append(cs, numberCorruptions(e, true)...)
		}
		for _, e := range []string{"G", "H"} {
			if rev {
				cs = append(cs, docCorruption{e + ":deleted", deleteElem(e), "ok-without-revocation"})
				cs = append(cs, numberCorruptions(e, true)...)
			}
		}
		for _, e := range []string{"Base_0", "Base_2"} {
			cs = append(cs, numberCorruptions(e, true)...)
			cs = append(cs, docCorruption{e + ":deleted(count-mismatch)", deleteElem(e), "error"})
		}
		cs = append(cs,
			docCorruption{"Bases:deleted", deleteElem("Bases"), "error"},
			docCorruption{"Bases:num+1", func(d string) (string, bool) { return strings.Replace(d, `num="3"`, `num="4"`, 1), true }, "error"},
			docCorruption{"Bases:num-1", func(d string) (string, bool) { return strings.Replace(d, `num="3"`, `num="2"`, 1), true }, "error"},
			docCorruption{"Bases:num-garbled", func(d string) (string, bool) { return strings.Replace(d, `num="3"`, `num="x"`, 1), true }, "error"},
			docCorruption{"Bases:num-negative", func(d string) (string, bool) { return strings.Replace(d, `num="3"`, `num="-3"`, 1), true }, "error"},
			docCorruption{"Bases:base-added", func(d string) (string, bool) {
				return strings.Replace(d, "</Bases>", "<Base_3>12345</Base_3></Bases>", 1), true
			}, "error"},
			docCorruption{"Elements:deleted", deleteElem("Elements"), "error"},
			docCorruption{"ECDSA:deleted", deleteElem("ECDSA"), map[bool]string{true: "ok-without-revocation", false: "ok"}[rev]},
			docCorruption{"Features:deleted", deleteElem("Features"), "ok"},
			docCorruption{"document:truncated", func(d string) (string, bool) { return d[:len(d)*2/3], true }, "error"},
			docCorruption{"document:empty", func(d string) (string, bool) { return "", true }, "error"},
			docCorruption{"document:wrong-root", func(d string) (string, bool) {
				return strings.ReplaceAll(d, "IssuerPublicKey", "IssuerPrivateKey"), true
			}, "error"},
		)
		if rev {
			cs = append(cs, docCorruption{"ECDSA:garbled", func(d string) (string, bool) {
				return elemRe("ECDSA").ReplaceAllString(d, "<ECDSA>AAAA</ECDSA>"), true
			}, "error"})
		}
		// unsupported modulus lengths
		for _, bits := range []uint{512, 1023, 1025, 2047} {
			bits := bits
			v := new(big.Int).Lsh(one, bits-1)
			v.Add(v, big.NewInt(12345))
			cs = append(cs, docCorruption{fmt.Sprintf("n:%d-bit-modulus", bits), func(d string) (string, bool) {
				return elemRe("n").ReplaceAllString(d, "<n>"+v.String()+"</n>"), true
			}, "error"})
		}
		for _, c := range cs {
			bad, ok := c.f(doc)
			if !ok || bad == doc {
				continue
			}
			verdicts := map[string]string{}
			for _, r := range pubReaders {
				var got *gabikeys.PublicKey
				var err error
				ps := vfh.Guard(func() { got, err = r.f(bad, dir) })
				rec.Case("malformed/public/"+stripName(c.name), true, fmt.Sprintf("mpk|%v|%s|%s", rev, c.name, r.name))
				det := map[string]any{"document": "public key", "revocation": rev, "corruption": c.name, "reader": r.name}
				if ps != "" {
					rec.FailT(ps+":"+stripName(c.name), det)
					verdicts[r.name] = "panic"
					continue
				}
				v := "ok"
				if err != nil {
					v = "error"
				}
				verdicts[r.name] = v
				switch c.expect {
				case "error":
					if err == nil || got != nil {
						rec.FailT("malformed-public-key-accepted:"+stripName(c.name)+":"+r.name, det)
					}
				case "ok-without-revocation":
					if err != nil {
						det["err"] = err.Error()
						rec.FailT("public-key-without-optional-element-refused:"+stripName(c.name), det)
					} else if got.RevocationSupported() {
						rec.FailT("revocation-support-claimed-without-material:"+stripName(c.name), det)
					}
				case "ok":
					if err != nil {
						det["err"] = err.Error()
						rec.FailT("public-key-without-optional-element-refused:"+stripName(c.name), det)
					}
				}
			}
			if len(verdicts) == 3 && !(verdicts["FromXML"] == verdicts["FromBytes"] && verdicts["FromBytes"] == verdicts["FromFile"]) {
				rec.FailT("public-key-readers-disagree:"+stripName(c.name), map[string]any{"corruption": c.name, "verdicts": fmt.Sprint(verdicts)})
			}
		}
	}

	// ---------- private key documents
	kp := vfk.K1024(2, 3, true)
	sdoc := privDoc(kp.Sk)
	// a 512-bit prime whose (p-1)/2 is composite (found at run time)
	nonSafe := new(big.Int).Lsh(one, 511)
	nonSafe.Add(nonSafe, one)
	for !(nonSafe.ProbablyPrime(32) && !new(big.Int).Rsh(nonSafe, 1).ProbablyPrime(32)) {
		nonSafe.Add(nonSafe, big.NewInt(2))
	}
	var cs []docCorruption
	for _, e := range []string{"p", "q", "pPrime", "qPrime"} {
		cs = append(cs, docCorruption{e + ":deleted", deleteElem(e), "error"})
		cs = append(cs, numberCorruptions(e, true)...)
	}
	cs = append(cs,
		docCorruption{"Elements:deleted", deleteElem("Elements"), "error"},
		docCorruption{"ECDSA:deleted", deleteElem("ECDSA"), "ok"},
		docCorruption{"ECDSA:garbled", func(d string) (string, bool) {
			return elemRe("ECDSA").ReplaceAllString(d, "<ECDSA>AAAA</ECDSA>"), true
		}, "error"},
		docCorruption{"document:truncated", func(d string) (string, bool) { return d[:len(d)/2], true }, "error"},
		docCorruption{"document:empty", func(d string) (string, bool) { return "", true }, "error"},
		docCorruption{"pPrime:+1(inconsistent)", func(d string) (string, bool) {
			v := new(big.Int).Add(kp.Sk.PPrime, one)
			return elemRe("pPrime").ReplaceAllString(d, "<pPrime>"+v.String()+"</pPrime>"), true
		}, "error-unless-demo"},
		docCorruption{"qPrime:=pPrime(inconsistent)", func(d string) (string, bool) {
			return elemRe("qPrime").ReplaceAllString(d, "<qPrime>"+kp.Sk.PPrime.String()+"</qPrime>"), true
		}, "error-unless-demo"},
		docCorruption{"p:non-safe-prime(consistent-pPrime)", func(d string) (string, bool) {
			d = elemRe("p").ReplaceAllString(d, "<p>"+nonSafe.String()+"</p>")
			half := new(big.Int).Rsh(nonSafe, 1)
			return elemRe("pPrime").ReplaceAllString(d, "<pPrime>"+half.String()+"</pPrime>"), true
		}, "error-unless-demo"},
		docCorruption{"p:composite(consistent-pPrime)", func(d string) (string, bool) {
			c := new(big.Int).Mul(kp.Sk.PPrime, big.NewInt(6))
			c.Add(c, one) // 6p'+1, almost surely composite or not safe; p' = (c-1)/2 = 3p' composite
			d = elemRe("p").ReplaceAllString(d, "<p>"+c.String()+"</p>")
			half := new(big.Int).Rsh(c, 1)
			return elemRe("pPrime").ReplaceAllString(d, "<pPrime>"+half.String()+"</pPrime>"), true
		}, "error-unless-demo"},
	)
	for _, c := range cs {
		bad, ok := c.f(sdoc)
		if !ok || bad == sdoc {
			continue
		}
		for _, demo := range []bool{false, true} {
			verdicts := map[string]string{}
			for _, r := range privReaders {
				var got *gabikeys.PrivateKey
				var err error
				ps := vfh.Guard(func() { got, err = r.f(bad, dir, demo) })
				rec.Case("malformed/private/"+stripName(c.name), true, fmt.Sprintf("msk|%s|%s|%v", c.name, r.name, demo))
				det := map[string]any{"document": "private key", "corruption": c.name, "reader": r.name, "demo": demo}
				if ps != "" {
					rec.FailT(ps+":"+stripName(c.name), det)
					verdicts[r.name] = "panic"
					continue
				}
				v := "ok"
				if err != nil {
					v = "error"
				}
				verdicts[r.name] = v
				wantErr := c.expect == "error" || (c.expect == "error-unless-demo" && !demo)
				if wantErr && (err == nil || got != nil) {
					rec.FailT("malformed-private-key-accepted:"+stripName(c.name), det)
				}
				if c.expect == "ok" && err != nil {
					det["err"] = err.Error()
					rec.FailT("private-key-without-optional-element-refused:"+stripName(c.name), det)
				}
			}
			if verdicts["FromXML"] != verdicts["FromFile"] {
				rec.FailT("private-key-readers-disagree:"+stripName(c.name), map[string]any{"corruption": c.name, "verdicts": fmt.Sprint(verdicts)})
			}
		}
	}
	rec.Sample(func() any {
		return map[string]any{"kind": "malformed key documents", "example": "public key with <Z> deleted, read by FromXML/FromBytes/FromFile"}
	})
	rec.SetExhaustive(true)
}

func stripName(s string) string {
	out := make([]byte, 0, len(s))
	for i := 0; i < len(s); i++ {
		if s[i] < '0' || s[i] > '9' {
			out = append(out, s[i])
		}
	}
	return string(out)
}

// TestVF_C18_KeyFileModes runs in its own process (umask is process-wide).
func TestVF_C18_KeyFileModes(t *testing.T) {
	rec := vfh.New(t, "C18")
	defer rec.Flush()
	kp := vfk.K1024(0, 2, true)
	states := []string{"absent", "regular-0644", "regular-0666", "regular-0600", "regular-0400", "symlink-to-0644-file", "dangling-symlink", "directory"}
	// every other combination of group / other bits a pre-existing file can have
	for _, m := range []int{0o640, 0o660, 0o620, 0o610, 0o604, 0o602, 0o601, 0o670, 0o607, 0o677, 0o777, 0o440, 0o404, 0o200} {
		states = append(states, fmt.Sprintf("regular-%04o", m))
	}
	defer syscall.Umask(syscall.Umask(0o022))
	for _, st := range states {
		for _, um := range []int{0, 0o022, 0o027, 0o077} {
			for _, overwrite := range []bool{false, true} {
				dir := t.TempDir()
				path := filepath.Join(dir, "sk.xml")
				target := filepath.Join(dir, "target.xml")
				syscall.Umask(0)
				old := []byte("previous content")
				existed := true
				switch st {
				case "absent":
					existed = false
				case "symlink-to-0644-file", "dangling-symlink", "directory":
				default: // regular-<mode>
					var mode os.FileMode
					fmt.Sscanf(st, "regular-%o", &mode)
					if err := os.WriteFile(path, old, mode); err != nil {
						t.Fatal(err)
					}
					_ = os.Chmod(path, mode)
				}
				switch st {
				case "symlink-to-0644-file":
					if err := os.WriteFile(target, old, 0o644); err != nil {
						t.Fatal(err)
					}
					_ = os.Symlink(target, path)
				case "dangling-symlink":
					_ = os.Symlink(target, path)
				case "directory":
					_ = os.Mkdir(path, 0o755)
				}
				syscall.Umask(um)
				var err error
				ps := vfh.Guard(func() { _, err = kp.Sk.WriteToFile(path, overwrite) })
				syscall.Umask(0o022)
				rec.Case("keyfile/private/"+st, true, fmt.Sprintf("kf|%s|%o|%v", st, um, overwrite))
				det := map[string]any{"prior_state": st, "umask": fmt.Sprintf("%04o", um), "overwrite": overwrite}
				if ps != "" {
					rec.FailT(ps+":WriteToFile", det)
					continue
				}
				if err == nil {
					fi, serr := os.Stat(path)
					if serr != nil {
						det["err"] = serr.Error()
						rec.FailT("written-private-key-file-missing", det)
						continue
					}
					if fi.Mode().Perm()&0o077 != 0 {
						det["mode"] = fmt.Sprintf("%04o", fi.Mode().Perm())
						rec.FailT("private-key-file-readable-by-group-or-others", det)
					}
					back, rerr := gabikeys.NewPrivateKeyFromFile(path, false)
					if rerr != nil || samePriv(kp.Sk, back) != "" {
						rec.FailT("written-private-key-file-does-not-read-back", det)
					}
					if !overwrite && existed && st != "dangling-symlink" {
						rec.FailT("existing-file-overwritten-without-force", det)
					}
				} else if !overwrite && existed && st != "directory" && st != "dangling-symlink" {
					chk := path
					if now, rerr := os.ReadFile(chk); rerr != nil || !bytes.Equal(now, old) {
						rec.FailT("refused-write-changed-existing-file", det)
					}
				} else if st == "absent" || (overwrite && st != "directory") {
					det["err"] = err.Error()
					rec.FailT("private-key-file-write-fails", det)
				}
			}
		}
	}
	// public key files: successful round trip
	for _, overwrite := range []bool{false, true} {
		dir := t.TempDir()
		path := filepath.Join(dir, "pk.xml")
		_, err := kp.Pk.WriteToFile(path, overwrite)
		rec.Case("keyfile/public", true, fmt.Sprintf("pkf|%v", overwrite))
		if err != nil {
			rec.FailT("public-key-file-write-fails", map[string]any{"overwrite": overwrite, "err": err.Error()})
			continue
		}
		back, err := gabikeys.NewPublicKeyFromFile(path)
		if err != nil || samePub(kp.Pk, back) != "" {
			rec.FailT("written-public-key-file-does-not-read-back", map[string]any{"overwrite": overwrite})
		}
	}
	rec.Sample(func() any {
		return map[string]any{"kind": "key file modes", "states": states, "umasks": "0000 0022 0027 0077", "overwrite": "false/true", "uid": os.Getuid(), "time": time.Now().Unix() > 0}
	})
	rec.SetExhaustive(true)
}

// ---- native fuzzing of the key readers (thorough tier): never panic; a returned key must
// write and read back unchanged.
func FuzzVF_C18_PublicKey(f *testing.F) {
	for _, rev := range []bool{true, false} {
		doc := pubDoc(vfk.K1024(0, 3, rev).Pk)
		f.Add([]byte(doc))
		for _, e := range []string{"n", "Z", "S", "Bases", "Elements", "G"} {
			if d, ok := deleteElem(e)(doc); ok {
				f.Add([]byte(d))
			}
		}
	}
	f.Add([]byte(`<IssuerPublicKey xmlns="http://www.zurich.ibm.com/security/idemix"><Elements><n>-1</n></Elements></IssuerPublicKey>`))
	f.Fuzz(func(t *testing.T, data []byte) {
		pk, err := gabikeys.NewPublicKeyFromBytes(data)
		if err != nil {
			if pk != nil {
				t.Fatalf("VF-VIOLATION key-object-returned-together-with-error")
			}
			return
		}
		if pk.N == nil || pk.Z == nil || pk.S == nil || pk.R == nil || pk.Params == nil {
			t.Fatalf("VF-VIOLATION malformed-public-key-accepted:nil-member")
		}
		for _, r := range pk.R {
			if r == nil || r.Sign() < 0 {
				t.Fatalf("VF-VIOLATION malformed-public-key-accepted:bad-base")
			}
		}
		back, err := gabikeys.NewPublicKeyFromXML(pubDoc(pk))
		if err != nil {
			t.Fatalf("VF-VIOLATION accepted-public-key-does-not-read-back: %v", err)
		}
		if f := samePub(pk, back); f != "" {
			t.Fatalf("VF-VIOLATION public-key-round-trip-changes-field %s", f)
		}
	})
}

func FuzzVF_C18_PrivateKey(f *testing.F) {
	doc := privDoc(vfk.K1024(0, 3, true).Sk)
	f.Add([]byte(doc), true)
	f.Add([]byte(doc), false)
	for _, e := range []string{"p", "q", "pPrime", "qPrime", "Elements", "ECDSA"} {
		if d, ok := deleteElem(e)(doc); ok {
			f.Add([]byte(d), true)
			f.Add([]byte(d), false)
		}
	}
	f.Fuzz(func(t *testing.T, data []byte, demo bool) {
		sk, err := gabikeys.NewPrivateKeyFromXML(string(data), demo)
		if err != nil {
			if sk != nil {
				t.Fatalf("VF-VIOLATION key-object-returned-together-with-error")
			}
			return
		}
		if sk.P == nil || sk.Q == nil || sk.PPrime == nil || sk.QPrime == nil || sk.N == nil || sk.Order == nil {
			t.Fatalf("VF-VIOLATION malformed-private-key-accepted:nil-member")
		}
		back, err := gabikeys.NewPrivateKeyFromXML(privDoc(sk), true)
		if err != nil {
			t.Fatalf("VF-VIOLATION accepted-private-key-does-not-read-back: %v", err)
		}
		if f := samePriv(sk, back); f != "" {
			t.Fatalf("VF-VIOLATION private-key-round-trip-changes-field %s", f)
		}
	})
}
