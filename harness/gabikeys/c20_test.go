package gabikeys_test

// C20 (S4) - parallel key generation under the race detector; every key must satisfy C16's
// predicates, and readers of one public key run concurrently with the generations.

import (
	"fmt"
	"sync"
	"testing"
	"time"

	"github.com/privacybydesign/gabi/big"
	"github.com/privacybydesign/gabi/gabikeys"
	"github.com/privacybydesign/gabi/internal/vfh"
	"github.com/privacybydesign/gabi/internal/vfk"
)

func TestVF_C20_KeyGen(t *testing.T) {
	rec := vfh.New(t, "C20")
	defer rec.Flush()
	shared := vfk.Toy(0, 4, true)
	reps := rec.N(3, 40)
	for rep := 0; rep < reps; rep++ {
		if !rec.Mine(rep) {
			continue
		}
		par := []int{2, 4, 8}[rep%3]
		p := params([]uint{128, 160, 192}[rep%3])
		var wg sync.WaitGroup
		var mu sync.Mutex
		var problems []string
		exp := time.Unix(1900000000, 0)
		for k := 0; k < par; k++ {
			wg.Add(2)
			go func(k int) {
				defer wg.Done()
				sk, pk, err := gabikeys.GenerateKeyPair(p, 3, uint(k), exp)
				if err != nil {
					mu.Lock()
					problems = append(problems, err.Error())
					mu.Unlock()
					return
				}
				if sig, what := judgeKey(sk, pk, p, 3, uint(k), exp); sig != "" {
					mu.Lock()
					problems = append(problems, sig+" "+what)
					mu.Unlock()
				}
			}(k)
			go func(k int) { // concurrent readers of one shared public key
				defer wg.Done()
				var ret big.Int
				for i := 0; i < 200; i++ {
					_ = shared.Pk.Base(fmt.Sprintf("R%d", i%4))
					shared.Pk.Exp(&ret, "S", big.NewInt(int64(i+k)), shared.Pk.N)
					_ = shared.Pk.Names()
					_ = shared.Pk.RevocationSupported()
				}
			}(k)
		}
		wg.Wait()
		rec.Case(fmt.Sprintf("S4-keygen/parallel=%d", par), true, fmt.Sprintf("kg|%d|%d|%d", rep, par, rec.Seed()))
		if rep == 0 {
			rec.Sample(func() any { return map[string]any{"script": "S4", "parallel_generations": par, "Ln": p.Ln} })
		}
		if len(problems) > 0 {
			rec.FailT("concurrently-generated-key-invalid", map[string]any{"parallel": par, "what": problems[0]})
		}
	}
}
