package zkproof

// C19 (Group.Exp): table-based exponentiation equals base^(e mod order) mod P.

import (
	"fmt"
	gobig "math/big"
	"testing"

	"github.com/privacybydesign/gabi/big"
	"github.com/privacybydesign/gabi/internal/vfh"
	"pgregory.net/rapid"
)

func TestVF_C19_GroupExp(t *testing.T) {
	rec := vfh.New(t, "C19")
	defer rec.Flush()
	var groups []Group
	for _, l := range [][]string{vfh.SafePrimes48, vfh.SafePrimes64, vfh.SafePrimes128, vfh.SafePrimes256} {
		for _, s := range l[:2] {
			p, _ := new(big.Int).SetString(s, 10)
			g, ok := BuildGroup(p)
			if !ok {
				t.Fatalf("BuildGroup rejects safe prime %s", s)
			}
			groups = append(groups, g)
		}
	}
	// small safe primes too
	for _, sp := range []int64{11, 23, 47, 59, 83, 107, 167, 179, 227} {
		if g, ok := BuildGroup(big.NewInt(sp)); ok {
			groups = append(groups, g)
		}
	}
	rec.Check(func(rt *rapid.T) {
		g := groups[rapid.IntRange(0, len(groups)-1).Draw(rt, "group")]
		ord := g.Order.Go()
		var e *gobig.Int
		switch rapid.IntRange(0, 4).Draw(rt, "cls") {
		case 0:
			e = gobig.NewInt(int64(rapid.IntRange(-3, 3).Draw(rt, "small")))
		case 1:
			e = new(gobig.Int).Sub(ord, gobig.NewInt(1))
		case 2:
			e = new(gobig.Int).Neg(new(gobig.Int).Sub(ord, gobig.NewInt(1)))
		default:
			e = new(gobig.Int).SetBytes(rapid.SliceOfN(rapid.Byte(), 1, 40).Draw(rt, "e"))
			e.Mod(e, ord)
			if rapid.Bool().Draw(rt, "neg") {
				e.Neg(e)
			}
		}
		if new(gobig.Int).Abs(e).Cmp(ord) >= 0 {
			e.SetInt64(1) // outside the documented domain (-order, order)
		}
		for _, name := range []string{"g", "h"} {
			var ret big.Int
			ein := big.Convert(new(gobig.Int).Set(e))
			ok := g.Exp(&ret, name, ein, g.P)
			want := new(gobig.Int).Exp(g.Base(name).Go(), new(gobig.Int).Mod(e, ord), g.P.Go())
			rec.Case(fmt.Sprintf("Group.Exp/negative=%v", e.Sign() < 0), true, fmt.Sprintf("ge|%s|%s|%s", g.P, name, e))
			if !ok || ret.Go().Cmp(want) != 0 {
				rec.Fail(rt, "Group.Exp-wrong", map[string]any{"P": g.P.String(), "base": name, "e": e.String(), "got": ret.String(), "want": want.String()})
				return
			}
			if ein.Go().Cmp(e) != 0 {
				rec.Fail(rt, "Group.Exp-modifies-exponent", map[string]any{"e": e.String()})
				return
			}
		}
		var ret big.Int
		if g.Exp(&ret, "x", big.NewInt(1), g.P) {
			rec.Fail(rt, "Group.Exp-unknown-base-accepted", nil)
		}
		rec.Sample(func() any { return map[string]any{"helper": "Group.Exp", "P_bits": g.P.BitLen(), "e": e.String()} })
	})
}
