package common

// Fallback of the CPRNG reseed hook, used by the driver only when the real hook no longer
// compiles against the tree under test (e.g. the generator's internals were refactored): the
// process-wide generator then keeps its random key and cases are not fully seed-reproducible.
func VfReseedCPRNG(seed *[32]byte) {}
