package gabi

// C03 - Linked proofs share one secret key.
// Oracle (model): accept <=> within every label class (nil labels: one class) all members were
// built from the same secret. Exhaustive over (length 2..4, secret-assignment pattern, labelling);
// builder kinds and keys vary with the shape index. Adversarial variants on an unequal class
// (colluding holders pooling their secrets) must be rejected; null-deviation controls accepted.

import (
	"fmt"
	"testing"

	"github.com/privacybydesign/gabi/big"
	"github.com/privacybydesign/gabi/gabikeys"
	"github.com/privacybydesign/gabi/internal/vfh"
	"github.com/privacybydesign/gabi/internal/vfk"
	"pgregory.net/rapid"
)

// restricted growth strings of length n with at most maxBlocks blocks = set partitions
func rgs(n, maxBlocks int) [][]int {
	var out [][]int
	cur := make([]int, n)
	var rec func(i, used int)
	rec = func(i, used int) {
		if i == n {
			out = append(out, append([]int{}, cur...))
			return
		}
		for v := 0; v <= used && v < maxBlocks; v++ {
			cur[i] = v
			nu := used
			if v == used {
				nu = used + 1
			}
			rec(i+1, nu)
		}
	}
	rec(0, 0)
	return out
}

type c03Shape struct {
	secrets []int // secret id per position
	labels  []int // nil = no labelling; else block id per position
	kinds   []int // 0 disclosure, 1 issuance
	keys    []*vfk.KeyPair
}

func (s *c03Shape) String() string {
	ks := make([]string, len(s.keys))
	for i, k := range s.keys {
		ks[i] = k.Name
	}
	return fmt.Sprintf("secrets=%v labels=%v kinds=%v keys=%v", s.secrets, s.labels, s.kinds, ks)
}

func (s *c03Shape) labelStrings() []string {
	if s.labels == nil {
		return nil
	}
	out := make([]string, len(s.labels))
	for i, l := range s.labels {
		out[i] = fmt.Sprintf("kss%d", l)
	}
	return out
}

// model verdict and (if reject) one offending pair (a, b): same class, different secrets
func (s *c03Shape) model() (accept bool, a, b int) {
	for i := range s.secrets {
		for j := i + 1; j < len(s.secrets); j++ {
			same := s.labels == nil || s.labels[i] == s.labels[j]
			if same && s.secrets[i] != s.secrets[j] {
				return false, i, j
			}
		}
	}
	return true, -1, -1
}

type c03World struct {
	secretVals []*big.Int
	ctx, nonce *big.Int
	issig      bool
}

func (w *c03World) honestBuilder(s *c03Shape, i int) (ProofBuilder, *Credential, error) {
	kp := s.keys[i]
	sec := w.secretVals[s.secrets[i]]
	if s.kinds[i] == 1 {
		b, err := NewCredentialBuilder(kp.Pk, w.ctx, sec, bi(12345), nil, nil)
		return b, nil, err
	}
	cred, err := issueDirect(kp, sec, []*big.Int{bi(int64(1000 + i)), bi(int64(2000 + i))})
	if err != nil {
		return nil, nil, err
	}
	b, err := cred.CreateDisclosureProofBuilder([]int{1}, nil, false)
	return b, cred, err
}

func (w *c03World) keysOf(s *c03Shape) []*gabikeys.PublicKey {
	out := make([]*gabikeys.PublicKey, len(s.keys))
	for i, k := range s.keys {
		out[i] = k.Pk
	}
	return out
}

func c03RunShape(t *testing.T, rec *vfh.Rec, s *c03Shape, w *c03World, fail func(sig string, d any)) {
	n := len(s.secrets)
	builders := make(ProofBuilderList, n)
	creds := make([]*Credential, n)
	for i := 0; i < n; i++ {
		b, c, err := w.honestBuilder(s, i)
		if err != nil {
			fail("honest-builder-error", map[string]any{"shape": s.String(), "err": err.Error()})
			return
		}
		builders[i], creds[i] = b, c
	}
	pl, err := builders.BuildProofList(w.ctx, w.nonce, w.issig)
	if err != nil {
		fail("honest-buildprooflist-error", map[string]any{"shape": s.String(), "err": err.Error()})
		return
	}
	want, a, b := s.model()
	var got bool
	if psig := vfh.Guard(func() { got = pl.Verify(w.keysOf(s), w.ctx, w.nonce, w.issig, s.labelStrings()) }); psig != "" {
		fail(psig, map[string]any{"shape": s.String()})
		return
	}
	distinctSecrets := map[int]bool{}
	for _, x := range s.secrets {
		distinctSecrets[x] = true
	}
	cls := "honest/model-accept"
	if !want {
		cls = "honest/model-reject"
	}
	rec.Case(cls, len(distinctSecrets) >= 2, "h|"+s.String()+fmt.Sprint(w.issig))
	rec.Sample(func() any { return map[string]any{"shape": s.String(), "model_accept": want, "issig": w.issig} })
	if got != want {
		sig := "list-with-unequal-secrets-in-one-class-accepted"
		if want {
			sig = "list-with-equal-secrets-per-class-rejected"
		}
		fail(sig, map[string]any{"shape": s.String(), "issig": w.issig})
		return
	}
	if want {
		return
	}

	// ---- adversarial variants: member b pretends to hold member a's secret
	sa, sb := w.secretVals[s.secrets[a]], w.secretVals[s.secrets[b]]
	kpB := s.keys[b]
	mk := func(variant string) (ProofBuilder, func() bool) {
		switch variant {
		case "V1-disclose-difference-at-0", "V3-disclose-secret", "ctl-advD":
			cred := creds[b]
			if cred == nil {
				var err error
				cred, err = issueDirect(kpB, sb, []*big.Int{bi(7), bi(8)})
				if err != nil {
					return nil, nil
				}
			}
			var ab *advBuilder
			var err error
			switch variant {
			case "V1-disclose-difference-at-0":
				diff := new(big.Int).Sub(sb, sa)
				if diff.Sign() < 0 {
					return nil, nil // a disclosed value cannot be negative on the wire
				}
				ab, err = newAdvBuilder(kpB, cred, []int{0, 2}, map[int]*big.Int{0: diff, 1: cred.Attributes[1]})
			case "V3-disclose-secret":
				ab, err = newAdvBuilder(kpB, cred, []int{2}, map[int]*big.Int{0: sb, 1: cred.Attributes[1]})
			default:
				ab, err = newAdvBuilder(kpB, cred, []int{0, 2}, map[int]*big.Int{1: cred.Attributes[1]})
			}
			if err != nil {
				return nil, nil
			}
			return ab, func() bool { return ab.negative }
		case "V4-negated-secret-and-randomiser":
			// an issuance commitment to -s_a made with the negated shared randomiser: its response is
			// -(r + c*s_a), the other holder's r + c*s_a (presentable in memory only)
			cb, err := newAdvCredBuilder(kpB, new(big.Int).Neg(sa), nil)
			if err != nil {
				return nil, nil
			}
			cb.negSkR = true
			return cb, func() bool { return false }
		case "V2-extra-response-on-R0", "ctl-advU":
			var claimed *big.Int
			if variant == "V2-extra-response-on-R0" {
				claimed = sa
			}
			cb, err := newAdvCredBuilder(kpB, sb, claimed)
			if err != nil {
				return nil, nil
			}
			return cb, func() bool { return cb.negative }
		}
		return nil, nil
	}
	for _, variant := range []string{"V1-disclose-difference-at-0", "V2-extra-response-on-R0", "V3-disclose-secret", "V4-negated-secret-and-randomiser"} {
		ab, neg := mk(variant)
		if ab == nil {
			rec.Class("adv-skipped/"+variant, 1)
			continue
		}
		bl := append(ProofBuilderList{}, builders...)
		// fresh honest builders for the other positions (builders are single-use)
		for i := range bl {
			if i == b {
				bl[i] = ab
				continue
			}
			nb, _, err := w.honestBuilder(s, i)
			if err != nil {
				return
			}
			bl[i] = nb
		}
		// restrict the list to positions a and b plus members of other classes, so that the only
		// model violation is the (a, b) pair the adversary tries to hide
		sub := &c03Shape{}
		var subB ProofBuilderList
		for i := range bl {
			inClass := s.labels == nil || s.labels[i] == s.labels[a]
			if i == a || i == b || !inClass {
				sub.secrets = append(sub.secrets, s.secrets[i])
				sub.keys = append(sub.keys, s.keys[i])
				if s.labels != nil {
					sub.labels = append(sub.labels, s.labels[i])
				}
				subB = append(subB, bl[i])
			}
		}
		// the remaining classes must be internally consistent for the variant to be meaningful
		okRest := true
		for i := range sub.secrets {
			for j := i + 1; j < len(sub.secrets); j++ {
				same := sub.labels == nil || sub.labels[i] == sub.labels[j]
				if same && sub.secrets[i] != sub.secrets[j] && !(sub.secrets[i] == s.secrets[a] && sub.secrets[j] == s.secrets[b]) && !(sub.secrets[i] == s.secrets[b] && sub.secrets[j] == s.secrets[a]) {
					okRest = false
				}
			}
		}
		if !okRest {
			rec.Class("adv-skipped-other-conflict/"+variant, 1)
			continue
		}
		apl, err := subB.BuildProofList(w.ctx, w.nonce, w.issig)
		if err != nil || neg() {
			rec.Class("adv-skipped/"+variant, 1)
			continue
		}
		var acc bool
		psig := vfh.Guard(func() { acc = apl.Verify(w.keysOf(sub), w.ctx, w.nonce, w.issig, sub.labelStrings()) })
		rec.Case("adversarial/"+variant, true, "adv|"+variant+"|"+s.String())
		if psig != "" {
			fail(psig+":"+variant, map[string]any{"shape": s.String(), "variant": variant})
			return
		}
		if acc {
			fail("colluding-holders-accepted:"+variant, map[string]any{"shape": s.String(), "sub": sub.String(), "variant": variant})
			return
		}
	}
	// ---- controls: the adversarial provers with the null deviation, in a single-secret list
	for _, variant := range []string{"ctl-advD", "ctl-advU"} {
		ab, _ := mk(variant)
		if ab == nil {
			continue
		}
		hb, _, err := (&c03World{secretVals: w.secretVals, ctx: w.ctx, nonce: w.nonce}).honestBuilder(
			&c03Shape{secrets: []int{s.secrets[b]}, kinds: []int{0}, keys: []*vfk.KeyPair{s.keys[a]}}, 0)
		if err != nil {
			continue
		}
		cl, err := ProofBuilderList{hb, ab}.BuildProofList(w.ctx, w.nonce, w.issig)
		if err != nil {
			rec.Control(false, "control list could not be built: "+err.Error())
			continue
		}
		ok := cl.Verify([]*gabikeys.PublicKey{s.keys[a].Pk, kpB.Pk}, w.ctx, w.nonce, w.issig, nil)
		rec.Control(ok, "null-deviation "+variant+" rejected for "+s.String())
	}
}

func c03Shapes(rec *vfh.Rec) []*c03Shape {
	var shapes []*c03Shape
	idx := 0
	for n := 2; n <= 4; n++ {
		for _, sec := range rgs(n, 3) {
			labelings := append([][]int{nil}, rgs(n, n)...)
			for _, lab := range labelings {
				s := &c03Shape{secrets: sec, labels: lab}
				for i := 0; i < n; i++ {
					s.kinds = append(s.kinds, (idx>>uint(i))&1)
					kind, ki := "toy", (idx+3*i)%8
					if (idx+i)%11 == 0 {
						kind, ki = "k1024", (idx+i)%3
					}
					if idx%97 == 13 && i == 0 {
						kind, ki = "k2048", 0
					}
					s.keys = append(s.keys, getKey(kind, ki))
				}
				shapes = append(shapes, s)
				idx++
			}
		}
	}
	return shapes
}

// TestVF_C03_Exhaustive enumerates every (length, secret pattern, labelling) shape.
func TestVF_C03_Exhaustive(t *testing.T) {
	rec := vfh.New(t, "C03")
	defer rec.Flush()
	shapes := c03Shapes(rec)
	rec.Note("shapes_total", len(shapes))
	seedLib(t, uint64(rec.Seed()))
	for i, s := range shapes {
		if !rec.Mine(i) {
			continue
		}
		w := &c03World{ctx: bi(int64(1 + i)), nonce: bi(int64(99991 + 7*i + int(rec.Seed()))), issig: i%3 == 1}
		for k := 0; k < 3; k++ {
			b := make([]byte, 31)
			for j := range b {
				b[j] = byte(17*k + 3*j + i + int(rec.Seed()))
			}
			b[0] = 0x40 | byte(k)
			w.secretVals = append(w.secretVals, new(big.Int).SetBytes(b))
		}
		c03RunShape(t, rec, s, w, func(sig string, d any) { rec.FailT(sig, d) })
	}
	rec.SetExhaustive(true)
}

// TestVF_C03_Random draws shapes, kinds, keys and secret values (including secrets that differ
// in one low bit or by a multiple of small numbers) with rapid.
func TestVF_C03_Random(t *testing.T) {
	rec := vfh.New(t, "C03")
	defer rec.Flush()
	rec.Check(func(rt *rapid.T) {
		drawLibSeed(t, rt)
		n := rapid.IntRange(2, 4).Draw(rt, "n")
		s := &c03Shape{}
		for i := 0; i < n; i++ {
			s.secrets = append(s.secrets, rapid.IntRange(0, 2).Draw(rt, "sec"))
			s.kinds = append(s.kinds, rapid.IntRange(0, 1).Draw(rt, "kind"))
			s.keys = append(s.keys, drawKey(rt, false, true))
		}
		switch rapid.IntRange(0, 2).Draw(rt, "labmode") {
		case 1:
			s.labels = make([]int, n)
		case 2:
			for i := 0; i < n; i++ {
				s.labels = append(s.labels, rapid.IntRange(0, 2).Draw(rt, "lab"))
			}
		}
		w := &c03World{
			ctx:   new(big.Int).SetBytes(rapid.SliceOfN(rapid.Byte(), 1, 32).Draw(rt, "ctx")),
			nonce: new(big.Int).SetBytes(rapid.SliceOfN(rapid.Byte(), 1, 16).Draw(rt, "nonce")),
			issig: rapid.Bool().Draw(rt, "issig"),
		}
		base := genSecret(rt, "s0")
		w.secretVals = []*big.Int{base}
		for k := 1; k < 3; k++ {
			switch rapid.IntRange(0, 3).Draw(rt, "sdiff") {
			case 0:
				w.secretVals = append(w.secretVals, new(big.Int).Add(base, bi(int64(k))))
			case 1:
				w.secretVals = append(w.secretVals, new(big.Int).Xor(base, pow2(uint(rapid.IntRange(0, 240).Draw(rt, "bit")+k))))
			default:
				v := genSecret(rt, fmt.Sprintf("s%d", k))
				v.Xor(v, pow2(uint(k))) // guarantee difference from base in a low bit pattern
				if v.Cmp(base) == 0 {
					v.Add(v, bi(5))
				}
				w.secretVals = append(w.secretVals, v)
			}
		}
		if w.secretVals[1].Cmp(w.secretVals[2]) == 0 {
			w.secretVals[2] = new(big.Int).Add(w.secretVals[2], bi(3))
		}
		c03RunShape(t, rec, s, w, func(sig string, d any) { rec.Fail(rt, sig, d) })
	})
}
