package gabi

// C15 (end to end) - the challenge of every honest proof equals the reference hash of
// [context, contributions of all proofs in order..., nonce] with the signature-session marker:
// pins the sandwich ordering and the use of the marker by the proof machinery.

import (
	"fmt"
	gobig "math/big"
	"testing"

	"github.com/privacybydesign/gabi/big"
	"github.com/privacybydesign/gabi/internal/vfh"
	"github.com/privacybydesign/gabi/internal/vfk"
	"pgregory.net/rapid"
)

func TestVF_C15_E2E(t *testing.T) {
	rec := vfh.New(t, "C15")
	defer rec.Flush()
	rec.Check(func(rt *rapid.T) {
		drawLibSeed(t, rt)
		nk := rapid.IntRange(1, 2).Draw(rt, "nkeys")
		s := &c02Session{worlds: map[int]*revWorld{}, secret: genSecret(rt, "secret")}
		first := rapid.IntRange(0, 7).Draw(rt, "key0")
		for i := 0; i < nk; i++ {
			s.keys = append(s.keys, getKey("toyrev", (first+i)%8))
		}
		if rapid.IntRange(0, 9).Draw(rt, "big") == 0 {
			s.keys = []*vfk.KeyPair{getKey("k1024rev", first%3)}
			nk = 1
		}
		n := rapid.IntRange(1, 3).Draw(rt, "n")
		for i := 0; i < n; i++ {
			s.members = append(s.members, c02Member{kind: rapid.SampledFrom(c02Kinds).Draw(rt, fmt.Sprintf("kind%d", i)), key: rapid.IntRange(0, nk-1).Draw(rt, fmt.Sprintf("mkey%d", i))})
		}
		ctx := new(big.Int).SetBytes(rapid.SliceOfN(rapid.Byte(), 1, 32).Draw(rt, "ctx"))
		nonce := new(big.Int).SetBytes(rapid.SliceOfN(rapid.Byte(), 1, 16).Draw(rt, "nonce"))
		issig := rapid.Bool().Draw(rt, "issig")
		pl, err := s.build(ctx, nonce, issig)
		if err != nil {
			rec.Fail(rt, "honest-list-build-error", map[string]any{"session": s.String(), "err": err.Error()})
			return
		}
		pks := s.pks()
		in := []*gobig.Int{ctx.Go()}
		for i, p := range pl {
			contrib, err := p.ChallengeContribution(pks[i])
			if err != nil {
				rec.Fail(rt, "honest-proof-has-no-challenge-contribution", map[string]any{"session": s.String(), "err": err.Error()})
				return
			}
			for _, c := range contrib {
				in = append(in, c.Go())
			}
		}
		in = append(in, nonce.Go())
		want := vfh.RefHashCommit(in, issig)
		rec.Case(fmt.Sprintf("e2e-challenge/issig=%v/proofs=%d", issig, n), true, "e2e|"+s.String()+want.String())
		rec.Sample(func() any {
			return map[string]any{"kind": "end-to-end challenge", "session": s.String(), "issig": issig, "hashed_integers": len(in)}
		})
		for i, p := range pl {
			var c *big.Int
			switch q := p.(type) {
			case *ProofD:
				c = q.C
			case *ProofU:
				c = q.C
			}
			if c == nil || c.Go().Cmp(want) != 0 {
				if d, ok := p.(*ProofD); ok && c11Ambiguous(d) {
					return // the verifier-side contribution of an ambiguous proof may use the wrong response
				}
				rec.Fail(rt, "proof-challenge-differs-from-reference-hash-of-sandwiched-contributions", map[string]any{"session": s.String(), "issig": issig, "proof": i})
				return
			}
		}
		// every verification entry point applies the same encoding, marker included: the list entry
		// point, and for a single proof also ProofD.Verify (marker as given) / ProofU.Verify (no marker)
		if !pl.Verify(pks, ctx, nonce, issig, nil) || pl.Verify(pks, ctx, nonce, !issig, nil) {
			for _, p := range pl {
				if d, ok := p.(*ProofD); ok && c11Ambiguous(d) {
					return
				}
			}
			rec.Fail(rt, "list-verification-does-not-follow-the-session-marker", map[string]any{"session": s.String(), "issig": issig})
			return
		}
		if n == 1 {
			rec.Case(fmt.Sprintf("single-proof-entry-point/issig=%v", issig), true, "sp|"+s.String()+want.String())
			switch q := pl[0].(type) {
			case *ProofD:
				if c11Ambiguous(q) {
					return
				}
				if !q.Verify(pks[0], ctx, nonce, issig) || q.Verify(pks[0], ctx, nonce, !issig) {
					rec.Fail(rt, "ProofD.Verify-does-not-follow-the-session-marker", map[string]any{"session": s.String(), "issig": issig})
				}
			case *ProofU:
				if got := q.Verify(pks[0], ctx, nonce); got != !issig {
					rec.Fail(rt, "ProofU.Verify-verdict-differs-from-unmarked-challenge", map[string]any{"session": s.String(), "issig": issig, "verdict": got})
				}
			}
		}
	})
}
