package gabi

// Adversarial disclosure prover written from the protocol equations (not from the library's
// builder). It implements the public ProofBuilder interface, so challenges are obtained through
// the library's own ProofBuilderList machinery - exactly what a malicious holder linking against
// the library could do. The harness knows every secret and the group order.

import (
	"github.com/privacybydesign/gabi/big"
	"github.com/privacybydesign/gabi/gabikeys"
	"github.com/privacybydesign/gabi/internal/common"
	"github.com/privacybydesign/gabi/internal/vfk"
)

type advBuilder struct {
	kp        *vfk.KeyPair
	ms        []*big.Int   // true signed messages (index 0 = secret)
	sig       *CLSignature // randomized signature used for this proof
	hidden    []int        // indices that get a response
	disclosed map[int]*big.Int
	// deviations
	shiftE   *big.Int         // added to the e response after it is computed (multiples of ord)
	shiftA   map[int]*big.Int // added to hidden responses
	upperA   bool             // draw attribute randomizers from the upper half of their range
	fixedSkR *big.Int         // if set, overrides the shared secret-key randomizer (index 0)

	eC, vC *big.Int
	aC     map[int]*big.Int
	pcomm  *ProofPCommitment

	negative bool // set when a computed response would be negative (not wire-expressible)
}

func newAdvBuilder(kp *vfk.KeyPair, cred *Credential, hidden []int, disclosed map[int]*big.Int) (*advBuilder, error) {
	rs, err := cred.Signature.Randomize(kp.Pk)
	if err != nil {
		return nil, err
	}
	b := &advBuilder{kp: kp, ms: cred.Attributes, sig: rs, hidden: hidden, disclosed: disclosed,
		shiftA: map[int]*big.Int{}, aC: map[int]*big.Int{}, upperA: true}
	p := kp.Pk.Params
	if b.eC, err = common.RandomBigInt(p.LeCommit); err != nil {
		return nil, err
	}
	if b.vC, err = common.RandomBigInt(p.LvCommit); err != nil {
		return nil, err
	}
	for _, i := range hidden {
		r, err := common.RandomBigInt(p.LmCommit - 1)
		if err != nil {
			return nil, err
		}
		if b.upperA {
			r.Add(r, pow2(p.LmCommit-1))
		}
		b.aC[i] = r
	}
	return b, nil
}

func (b *advBuilder) PublicKey() *gabikeys.PublicKey          { return b.kp.Pk }
func (b *advBuilder) SetProofPCommitment(c *ProofPCommitment) { b.pcomm = c }

func (b *advBuilder) Commit(randomizers map[string]*big.Int) ([]*big.Int, error) {
	pk := b.kp.Pk
	for _, i := range b.hidden {
		if i == 0 {
			if b.fixedSkR != nil {
				b.aC[0] = b.fixedSkR
			} else if r, ok := randomizers["secretkey"]; ok && r != nil {
				b.aC[0] = r
			}
		}
	}
	z := new(big.Int).Exp(b.sig.A, b.eC, pk.N)
	z.Mul(z, new(big.Int).Exp(pk.S, b.vC, pk.N)).Mod(z, pk.N)
	for _, i := range b.hidden {
		z.Mul(z, new(big.Int).Exp(pk.R[i], b.aC[i], pk.N)).Mod(z, pk.N)
	}
	if b.pcomm != nil {
		z.Mul(z, b.pcomm.Pcommit).Mod(z, pk.N)
	}
	return []*big.Int{b.sig.A, z}, nil
}

func (b *advBuilder) CreateProof(challenge *big.Int) Proof {
	pk := b.kp.Pk
	lm := pk.Params.Lm
	ePrime := new(big.Int).Sub(b.sig.E, pow2(pk.Params.Le-1))
	eResp := new(big.Int).Add(b.eC, new(big.Int).Mul(challenge, ePrime))
	if b.shiftE != nil {
		eResp.Add(eResp, b.shiftE)
	}
	vResp := new(big.Int).Add(b.vC, new(big.Int).Mul(challenge, b.sig.V))
	aResp := map[int]*big.Int{}
	for _, i := range b.hidden {
		residual := expOf(b.ms[i], lm)
		if x, ok := b.disclosed[i]; ok {
			residual.Sub(residual, expOf(x, lm))
		}
		r := new(big.Int).Add(b.aC[i], new(big.Int).Mul(challenge, residual))
		if s, ok := b.shiftA[i]; ok {
			r.Add(r, s)
		}
		aResp[i] = r
	}
	disc := map[int]*big.Int{}
	for i, v := range b.disclosed {
		disc[i] = new(big.Int).Set(v)
	}
	b.negative = eResp.Sign() < 0 || vResp.Sign() < 0
	for _, r := range aResp {
		if r.Sign() < 0 {
			b.negative = true
		}
	}
	return &ProofD{C: new(big.Int).Set(challenge), A: new(big.Int).Set(b.sig.A), EResponse: eResp, VResponse: vResp,
		AResponses: aResp, ADisclosed: disc}
}

// equationValid reports whether the proof built by this builder satisfies the verification
// equation by construction: every index without a response must have zero residual.
func (b *advBuilder) equationValid() bool {
	lm := b.kp.Pk.Params.Lm
	hid := map[int]bool{}
	for _, i := range b.hidden {
		hid[i] = true
	}
	for i, m := range b.ms {
		if hid[i] {
			continue
		}
		residual := expOf(m, lm)
		if x, ok := b.disclosed[i]; ok {
			residual.Sub(residual, expOf(x, lm))
		}
		residual.Mod(residual, b.kp.Sk.Order)
		if residual.Sign() != 0 {
			return false
		}
	}
	return true
}

// advCredBuilder: adversarial issuance-commitment prover (ProofU) from the protocol equations.
// U = S^vPrime * R0^secret (* R_i^m_i). Deviation: claim knowledge of `claimed` on the regular
// secret-key response and carry the difference secret-claimed on an extra response for base R_0.
type advCredBuilder struct {
	kp      *vfk.KeyPair
	secret  *big.Int
	claimed *big.Int // nil: honest
	vPrime  *big.Int
	u       *big.Int
	vC      *big.Int
	skR     *big.Int
	extraR  *big.Int
	pcomm   *ProofPCommitment
	negSkR  bool // use the negated shared secret-key randomiser (responses then are negative: in-memory only)

	negative bool
}

func newAdvCredBuilder(kp *vfk.KeyPair, secret, claimed *big.Int) (*advCredBuilder, error) {
	pk := kp.Pk
	b := &advCredBuilder{kp: kp, secret: secret, claimed: claimed}
	var err error
	if b.vPrime, err = common.RandomBigInt(pk.Params.LvPrime); err != nil {
		return nil, err
	}
	if b.vC, err = common.RandomBigInt(pk.Params.LvPrimeCommit); err != nil {
		return nil, err
	}
	if b.extraR, err = common.RandomBigInt(pk.Params.LmCommit - 1); err != nil {
		return nil, err
	}
	b.extraR.Add(b.extraR, pow2(pk.Params.LmCommit-1))
	b.u = new(big.Int).Exp(pk.S, b.vPrime, pk.N)
	b.u.Mul(b.u, new(big.Int).Exp(pk.R[0], secret, pk.N)).Mod(b.u, pk.N)
	return b, nil
}

func (b *advCredBuilder) PublicKey() *gabikeys.PublicKey          { return b.kp.Pk }
func (b *advCredBuilder) SetProofPCommitment(c *ProofPCommitment) { b.pcomm = c }

func (b *advCredBuilder) Commit(randomizers map[string]*big.Int) ([]*big.Int, error) {
	pk := b.kp.Pk
	b.skR = randomizers["secretkey"]
	if b.negSkR && b.skR != nil {
		b.skR = new(big.Int).Neg(b.skR)
	}
	uc := new(big.Int).Exp(pk.S, b.vC, pk.N)
	uc.Mul(uc, new(big.Int).Exp(pk.R[0], b.skR, pk.N)).Mod(uc, pk.N)
	if b.claimed != nil {
		uc.Mul(uc, new(big.Int).Exp(pk.R[0], b.extraR, pk.N)).Mod(uc, pk.N)
	}
	if b.pcomm != nil {
		uc.Mul(uc, b.pcomm.Pcommit).Mod(uc, pk.N)
	}
	return []*big.Int{b.u, uc}, nil
}

func (b *advCredBuilder) CreateProof(challenge *big.Int) Proof {
	s := b.secret
	if b.claimed != nil {
		s = b.claimed
	}
	p := &ProofU{
		U:              new(big.Int).Set(b.u),
		C:              new(big.Int).Set(challenge),
		VPrimeResponse: new(big.Int).Add(b.vC, new(big.Int).Mul(challenge, b.vPrime)),
		SResponse:      new(big.Int).Add(b.skR, new(big.Int).Mul(challenge, s)),
	}
	if b.claimed != nil {
		diff := new(big.Int).Sub(b.secret, b.claimed)
		x := new(big.Int).Add(b.extraR, new(big.Int).Mul(challenge, diff))
		b.negative = x.Sign() < 0
		p.MUserResponses = map[int]*big.Int{0: x}
	}
	return p
}
