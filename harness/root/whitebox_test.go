package gabi

// White-box accessors. The harness reads a few unexported fields of library objects (the user's
// blind shares, v', a builder's attribute randomisers). They are reached by reflection so that a
// refactoring of those fields degrades the dependent assertions (counted as
// "whitebox-unavailable") instead of breaking the build of every check in this package.

import (
	"reflect"
	"unsafe"

	"github.com/privacybydesign/gabi/big"
)

func wbField(obj any, name string) (reflect.Value, bool) {
	v := reflect.ValueOf(obj)
	if v.Kind() != reflect.Ptr || v.IsNil() {
		return reflect.Value{}, false
	}
	f := v.Elem().FieldByName(name)
	if !f.IsValid() || !f.CanAddr() {
		return reflect.Value{}, false
	}
	return reflect.NewAt(f.Type(), unsafe.Pointer(f.UnsafeAddr())).Elem(), true
}

func wbBig(obj any, name string) *big.Int {
	f, ok := wbField(obj, name)
	if !ok {
		return nil
	}
	if p, ok := f.Interface().(*big.Int); ok {
		return p
	}
	return nil
}

func wbBigMap(obj any, name string) map[int]*big.Int {
	f, ok := wbField(obj, name)
	if !ok {
		return nil
	}
	if m, ok := f.Interface().(map[int]*big.Int); ok {
		return m
	}
	return nil
}

func credBuilderSecret(b *CredentialBuilder) *big.Int               { return wbBig(b, "secret") }
func credBuilderVPrime(b *CredentialBuilder) *big.Int               { return wbBig(b, "vPrime") }
func credBuilderMUser(b *CredentialBuilder) map[int]*big.Int        { return wbBigMap(b, "mUser") }
func nonrevBuilderRandomizer(b *NonRevocationProofBuilder) *big.Int { return wbBig(b, "randomizer") }

// setAttrRandomizer overrides the randomiser of one hidden attribute of a disclosure builder.
func setAttrRandomizer(b *DisclosureProofBuilder, idx int, v *big.Int) bool {
	m := wbBigMap(b, "attrRandomizers")
	if m == nil {
		return false
	}
	if _, ok := m[idx]; !ok {
		return false
	}
	m[idx] = v
	return true
}
