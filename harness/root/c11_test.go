package gabi

// C11 - Non-revocation proofs are sound and tied to the credential.
// rapid state machine {prepare cache, revoke other, revoke self, update witness (fresh update
// objects, partial or full), prove+verify with non-revocation through the cache or not} against
// a model of (witness index, revocation point); for accepted proofs a battery of forgeries
// (alterations, accumulator substitutions, transplants between credentials / proofs);
// boundary-directed honest cases for the verifier's choice of the revocation attribute.

import (
	"encoding/json"
	"fmt"
	"testing"

	"github.com/privacybydesign/gabi/big"
	"github.com/privacybydesign/gabi/gabikeys"
	"github.com/privacybydesign/gabi/internal/vfh"
	"github.com/privacybydesign/gabi/internal/vfk"
	"github.com/privacybydesign/gabi/revocation"
	"pgregory.net/rapid"
)

type c11World struct {
	kp           *vfk.KeyPair
	world        *revWorld
	cred         *revCred // credential under test
	other        *revCred // second credential (same secret) for transplants
	idx          uint64   // model: accumulator index the witness points to
	revAt        uint64   // model: event index that revoked the credential (0 = not revoked)
	history      []string
	nonce        int64
	accepted     int
	afterRefresh bool
	cacheAt      int64 // accumulator index at which the cache was last prepared (-1 = none)
}

func (w *c11World) nextNonce() *big.Int { w.nonce++; return bi(7000000 + w.nonce) }

// proveAndCheck creates a proof with non-revocation and applies the honest oracle.
// Returns the accepted proof's JSON (nil if none) and a violation.
func (w *c11World) proveAndCheck(rec *vfh.Rec) (js []byte, nonce *big.Int, sig, what string) {
	nonce = w.nextNonce()
	ctx := bi(1)
	wit := w.cred.cred.NonRevocationWitness
	wantIdx, wantTime := wit.SignedAccumulator.Accumulator.Index, wit.SignedAccumulator.Accumulator.Time
	wantNu := new(big.Int).Set(wit.SignedAccumulator.Accumulator.Nu)
	if wantIdx != w.idx {
		return nil, nonce, "model-out-of-sync", fmt.Sprintf("witness index %d model %d", wantIdx, w.idx)
	}
	var p *ProofD
	var err error
	if ps := vfh.Guard(func() { p, err = w.cred.cred.CreateDisclosureProof([]int{1}, nil, true, ctx, nonce) }); ps != "" {
		return nil, nonce, ps, "prove"
	}
	if err != nil {
		return nil, nonce, "honest-nonrev-proof-creation-fails", err.Error()
	}
	if p.NonRevocationProof == nil {
		return nil, nonce, "proof-lacks-requested-nonrev-part", ""
	}
	js, err = json.Marshal(p)
	if err != nil {
		return nil, nonce, "proof-marshal-error", err.Error()
	}
	var back ProofD
	if err := json.Unmarshal(js, &back); err != nil {
		return nil, nonce, "proof-unmarshal-error", err.Error()
	}
	var ok bool
	if ps := vfh.Guard(func() { ok = ProofList{&back}.Verify(keys1(w.kp), ctx, nonce, false, nil) }); ps != "" {
		return nil, nonce, ps, "verify"
	}
	if !ok {
		if c11Ambiguous(&back) {
			rec.Violation("honest-nonrev-proof-rejected:other-hidden-response-below-2^580", map[string]any{"history": w.history})
			return nil, nonce, "", ""
		}
		return nil, nonce, "honest-nonrev-proof-rejected", ""
	}
	acc := back.NonRevocationProof.SignedAccumulator.Accumulator
	if acc == nil {
		return nil, nonce, "accepted-proof-exposes-no-accumulator", ""
	}
	if acc.Index != wantIdx || acc.Time != wantTime || acc.Nu.Cmp(wantNu) != 0 {
		return nil, nonce, "accepted-proof-reports-other-accumulator-than-it-was-made-against",
			fmt.Sprintf("reported index %d time %d, witness pointed to index %d time %d", acc.Index, acc.Time, wantIdx, wantTime)
	}
	if w.revAt != 0 && acc.Index >= w.revAt {
		return nil, nonce, "revoked-credential-proves-nonrevocation-against-later-accumulator", fmt.Sprintf("index %d, revoked at %d", acc.Index, w.revAt)
	}
	w.accepted++
	return js, nonce, "", ""
}

func c11Setup(rt *rapid.T) (*c11World, error) {
	kp := getKey("toyrev", rapid.IntRange(0, 7).Draw(rt, "key"))
	sz := rapid.IntRange(0, 59).Draw(rt, "size")
	if sz == 0 {
		kp = getKey("k2048rev", 0)
	} else if sz < 5 {
		kp = getKey("k1024rev", sz%3)
	}
	w := &c11World{kp: kp, cacheAt: -1}
	var err error
	if w.world, err = newRevWorld(kp); err != nil {
		return nil, err
	}
	secret := genSecret(rt, "secret")
	if w.cred, err = issueRevCred(w.world, secret, []*big.Int{bi(11), bi(22), bi(33)}); err != nil {
		return nil, err
	}
	if w.other, err = issueRevCred(w.world, secret, []*big.Int{bi(44), bi(55), bi(66)}); err != nil {
		return nil, err
	}
	return w, nil
}

func TestVF_C11_Histories(t *testing.T) {
	rec := vfh.New(t, "C11")
	defer rec.Flush()
	rec.Check(func(rt *rapid.T) {
		drawLibSeed(t, rt)
		w, err := c11Setup(rt)
		if err != nil {
			rt.Fatalf("setup: %v", err)
		}
		pk := w.kp.Pk
		fail := func(sig, what string) {
			rec.Fail(rt, sig, map[string]any{"key": w.kp.Name, "history": w.history, "what": what})
		}
		step := func(s string) { w.history = append(w.history, s) }
		var lastJS []byte
		var lastNonce *big.Int
		var earlierJS []byte
		rt.Repeat(map[string]func(*rapid.T){
			"prepareCache": func(rt *rapid.T) {
				step("prepareCache")
				if err := w.cred.cred.NonrevPrepareCache(); err != nil {
					fail("prepare-cache-error", err.Error())
				}
				w.cacheAt = int64(w.idx)
			},
			"revokeOther": func(rt *rapid.T) {
				o, err := w.world.newWitness()
				if err != nil {
					rt.Fatalf("witness: %v", err)
				}
				if _, err := w.world.revoke(o.E); err != nil {
					rt.Fatalf("revoke: %v", err)
				}
				step(fmt.Sprintf("revokeOther(-> accumulator %d)", w.world.acc.Index))
			},
			"revokeSelf": func(rt *rapid.T) {
				if w.revAt != 0 {
					rt.Skip("already revoked")
				}
				if _, err := w.world.revoke(w.cred.cred.NonRevocationWitness.E); err != nil {
					rt.Fatalf("revoke: %v", err)
				}
				w.revAt = w.world.acc.Index
				step(fmt.Sprintf("revokeSelf(at %d)", w.revAt))
			},
			"updateWitness": func(rt *rapid.T) {
				latest := w.world.acc.Index
				if latest == w.idx {
					rt.Skip("nothing to update")
				}
				// update to a drawn target index (partial or full), fresh update object
				target := uint64(rapid.IntRange(int(w.idx)+1, int(latest)).Draw(rt, "target"))
				evs := append([]*revocation.Event{}, w.world.events[w.idx+1:target+1]...)
				acc := w.world.accAt(target)
				upd, err := revocation.NewUpdate(w.kp.Sk, acc, evs)
				if err != nil {
					rt.Fatalf("NewUpdate: %v", err)
				}
				step(fmt.Sprintf("updateWitness(%d -> %d)", w.idx, target))
				wit := w.cred.cred.NonRevocationWitness
				beforeU := new(big.Int).Set(wit.U)
				err = wit.Update(pk, upd)
				crosses := w.revAt != 0 && w.revAt > w.idx && w.revAt <= target
				if crosses {
					if err != revocation.ErrorRevoked {
						fail("revoked-witness-update-does-not-report-revoked", fmt.Sprint(err))
						return
					}
					if wit.U.Cmp(beforeU) != 0 || wit.SignedAccumulator.Accumulator.Index != w.idx {
						fail("failed-update-changes-witness", "")
					}
					return
				}
				if err != nil {
					fail("valid-witness-update-fails", err.Error())
					return
				}
				w.idx = target
				if w.cacheAt >= 0 && uint64(w.cacheAt) < w.idx {
					w.afterRefresh = true // the next proof through the cache needs a refreshed commitment
				}
			},
			"prove": func(rt *rapid.T) {
				step(fmt.Sprintf("prove(witness at %d, cache prepared at %d)", w.idx, w.cacheAt))
				js, nonce, sig, what := w.proveAndCheck(rec)
				w.cacheAt = -1
				if sig != "" {
					fail(sig, what)
					return
				}
				if js != nil {
					earlierJS = lastJS
					lastJS, lastNonce = js, nonce
				}
			},
			"resignAndAdopt": func(rt *rapid.T) {
				// the issuer signs the current accumulator again with a later time; the witness (already
				// at that index) adopts the newer signature; a prepared commitment must follow
				if w.idx != w.world.acc.Index {
					rt.Skip("witness not at the latest accumulator")
				}
				withCache := rapid.Bool().Draw(rt, "cacheFirst")
				step(fmt.Sprintf("resignAndAdopt(prepareCacheFirst=%v)", withCache))
				if withCache {
					if err := w.cred.cred.NonrevPrepareCache(); err != nil {
						fail("prepare-cache-error", err.Error())
						return
					}
					w.cacheAt = int64(w.idx)
				}
				acc := *w.world.acc
				acc.Time += 1000
				upd, err := revocation.NewUpdate(w.kp.Sk, &acc, []*revocation.Event{w.world.events[len(w.world.events)-1]})
				if err != nil {
					rt.Fatalf("NewUpdate: %v", err)
				}
				w.world.acc, w.world.sacc = &acc, upd.SignedAccumulator
				w.world.record()
				if err := w.cred.cred.NonRevocationWitness.Update(pk, upd); err != nil {
					fail("valid-witness-update-fails", err.Error())
					return
				}
				if got := w.cred.cred.NonRevocationWitness.SignedAccumulator.Accumulator.Time; got != acc.Time {
					fail("newer-signature-not-adopted", fmt.Sprintf("time %d want %d", got, acc.Time))
					return
				}
				if withCache {
					w.afterRefresh = true
					if rapid.Bool().Draw(rt, "prepareAgain") {
						if err := w.cred.cred.NonrevPrepareCache(); err != nil {
							fail("prepare-cache-error", err.Error())
							return
						}
					}
					js, nonce, sig, what := w.proveAndCheck(rec)
					w.cacheAt = -1
					if sig != "" {
						fail(sig, what)
						return
					}
					if js != nil {
						earlierJS = lastJS
						lastJS, lastNonce = js, nonce
					}
				}
			},
			"refreshScenario": func(rt *rapid.T) {
				// prepared commitment, then the accumulator moves on, the witness follows, and the
				// proof is made through the (now outdated) prepared commitment
				if w.revAt != 0 {
					rt.Skip("revoked")
				}
				step("refreshScenario: prepareCache; revokeOther; updateWitness; prove")
				if err := w.cred.cred.NonrevPrepareCache(); err != nil {
					fail("prepare-cache-error", err.Error())
					return
				}
				w.cacheAt = int64(w.idx)
				o, err := w.world.newWitness()
				if err != nil {
					rt.Fatalf("witness: %v", err)
				}
				if _, err := w.world.revoke(o.E); err != nil {
					rt.Fatalf("revoke: %v", err)
				}
				upd, err := w.world.updateFrom(w.idx + 1)
				if err != nil {
					rt.Fatalf("update: %v", err)
				}
				if err := w.cred.cred.NonRevocationWitness.Update(pk, upd); err != nil {
					fail("valid-witness-update-fails", err.Error())
					return
				}
				w.idx = w.world.acc.Index
				w.afterRefresh = true
				if rapid.Bool().Draw(rt, "prepareAgain") {
					if err := w.cred.cred.NonrevPrepareCache(); err != nil {
						fail("prepare-cache-error", err.Error())
						return
					}
				}
				js, nonce, sig, what := w.proveAndCheck(rec)
				w.cacheAt = -1
				if sig != "" {
					fail(sig, what)
					return
				}
				if js != nil {
					earlierJS = lastJS
					lastJS, lastNonce = js, nonce
				}
			},
			"tamperedWitness": func(rt *rapid.T) {
				// the holder points the witness to a newer accumulator without a valid update
				latest := w.world.acc.Index
				if latest == w.idx {
					rt.Skip("no newer accumulator")
				}
				step("prove-with-witness-pointed-at-newer-accumulator")
				// consume a prepared commitment first, so that the tampered witness is what gets committed
				if _, err := w.cred.cred.CreateDisclosureProofBuilder([]int{1}, nil, true); err != nil {
					fail("honest-builder-error", err.Error())
					return
				}
				w.cacheAt = -1
				wit := w.cred.cred.NonRevocationWitness
				saved := wit.SignedAccumulator
				wit.SignedAccumulator = w.world.sacc
				var p *ProofD
				var err error
				ps := vfh.Guard(func() { p, err = w.cred.cred.CreateDisclosureProof([]int{1}, nil, true, bi(1), bi(99)) })
				wit.SignedAccumulator = saved
				if ps != "" {
					fail(ps, "tampered witness")
					return
				}
				if err == nil && p != nil {
					if p.Verify(pk, bi(1), bi(99), false) {
						fail("proof-from-invalid-witness-accepted", "witness pointed at newer accumulator without update")
					}
				}
			},
			"": func(rt *rapid.T) {},
		})
		nt := w.accepted > 0 && (w.afterRefresh || w.revAt != 0)
		rec.Case(fmt.Sprintf("history/accepted=%v/after-refresh=%v/revoked-self=%v", w.accepted > 0, w.afterRefresh, w.revAt != 0), nt, fmt.Sprint(w.kp.Name, w.history))
		rec.Sample(func() any { return map[string]any{"key": w.kp.Name, "history": w.history} })

		// ---- forgeries on the last accepted proof
		if lastJS == nil {
			return
		}
		c11Forgeries(rec, rt, w, lastJS, lastNonce, earlierJS)
	})
}

func c11Forgeries(rec *vfh.Rec, rt *rapid.T, w *c11World, js []byte, nonce *big.Int, earlier []byte) {
	pk := w.kp.Pk
	ctx := bi(1)
	det := func(what string) map[string]any {
		return map[string]any{"key": w.kp.Name, "history": w.history, "forgery": what}
	}
	present := func(name string, f func(p *ProofD) bool) bool {
		var p ProofD
		if err := json.Unmarshal(js, &p); err != nil {
			rt.Fatalf("decode: %v", err)
		}
		if !f(&p) {
			return true
		}
		// through the wire again: clears verified-accumulator caches
		b, err := json.Marshal(&p)
		if err != nil {
			return true
		}
		var q ProofD
		if err := json.Unmarshal(b, &q); err != nil {
			return true
		}
		var acc bool
		ps := vfh.Guard(func() { acc = ProofList{&q}.Verify(keys1(w.kp), ctx, nonce, false, nil) })
		rec.Case("forgery/"+name, true, fmt.Sprintf("fg|%s|%s|%v", w.kp.Name, name, w.history))
		if ps != "" {
			return rec.Fail(rt, ps+":"+name, det(name))
		}
		if acc {
			return rec.Fail(rt, "forged-nonrev-proof-accepted:"+name, det(name))
		}
		return true
	}
	nr := func(p *ProofD) *revocation.Proof { return p.NonRevocationProof }
	if !present("C_r*S", func(p *ProofD) bool { nr(p).Cr.Mul(nr(p).Cr, pk.S).Mod(nr(p).Cr, pk.N); return true }) ||
		!present("C_u*S", func(p *ProofD) bool { nr(p).Cu.Mul(nr(p).Cu, pk.S).Mod(nr(p).Cu, pk.N); return true }) ||
		!present("C_r+1", func(p *ProofD) bool { nr(p).Cr.Add(nr(p).Cr, bi(1)); return true }) {
		return
	}
	for _, n := range []string{"beta", "delta", "epsilon", "zeta"} {
		n := n
		if !present("response-"+n+"+1", func(p *ProofD) bool { nr(p).Responses[n].Add(nr(p).Responses[n], bi(1)); return true }) ||
			!present("response-"+n+"-removed", func(p *ProofD) bool { delete(nr(p).Responses, n); return true }) {
			return
		}
	}
	if !present("responses-beta-delta-swapped", func(p *ProofD) bool {
		r := nr(p).Responses
		r["beta"], r["delta"] = r["delta"], r["beta"]
		return true
	}) {
		return
	}
	// accumulator substitutions
	cur := w.world
	var curIdx uint64
	{
		var p ProofD
		_ = json.Unmarshal(js, &p)
		if a, err := p.NonRevocationProof.SignedAccumulator.UnmarshalVerify(pk); err == nil {
			curIdx = a.Index
		}
	}
	for i, sacc := range cur.saccsByIndex {
		if i == curIdx {
			continue
		}
		sacc := sacc
		name := "accumulator-replaced-by-older"
		if i > curIdx {
			name = "accumulator-replaced-by-newer"
		}
		if !present(name, func(p *ProofD) bool {
			nr(p).SignedAccumulator = &revocation.SignedAccumulator{Data: sacc.Data, PKCounter: sacc.PKCounter}
			return true
		}) {
			return
		}
	}
	if !present("accumulator-byte-flipped", func(p *ProofD) bool {
		d := append([]byte{}, nr(p).SignedAccumulator.Data...)
		d[len(d)/3] ^= 1
		nr(p).SignedAccumulator.Data = d
		return true
	}) || !present("accumulator-pk-counter+1", func(p *ProofD) bool { nr(p).SignedAccumulator.PKCounter++; return true }) ||
		!present("nonrev-part-removed", func(p *ProofD) bool { p.NonRevocationProof = nil; return true }) {
		return
	}
	// the non-revocation part of an earlier proof of the same credential
	if earlier != nil {
		if !present("nonrev-part-from-earlier-proof-of-same-credential", func(p *ProofD) bool {
			var e ProofD
			if json.Unmarshal(earlier, &e) != nil || e.NonRevocationProof == nil {
				return false
			}
			p.NonRevocationProof = e.NonRevocationProof
			return true
		}) {
			return
		}
	}
	// revocation attribute response tied to another hidden attribute
	if !present("revocation-response-swapped-with-other-hidden-response", func(p *ProofD) bool {
		ri := w.cred.revIdx
		p.AResponses[ri], p.AResponses[2] = p.AResponses[2], p.AResponses[ri]
		return true
	}) {
		return
	}

	// ---- transplants within one session: two credentials proven jointly (same challenge)
	if w.other.cred.NonRevocationWitness.SignedAccumulator.Accumulator.Index != w.world.acc.Index {
		if upd, err := w.world.updateFrom(w.other.cred.NonRevocationWitness.SignedAccumulator.Accumulator.Index + 1); err == nil {
			_ = w.other.cred.NonRevocationWitness.Update(pk, upd)
		}
	}
	bA, errA := w.cred.cred.CreateDisclosureProofBuilder([]int{1}, nil, true)
	bB, errB := w.other.cred.CreateDisclosureProofBuilder([]int{1}, nil, true)
	bC, errC := w.other.cred.CreateDisclosureProofBuilder([]int{1}, nil, false)
	if errA != nil || errB != nil || errC != nil {
		return
	}
	n2 := w.nextNonce()
	pl, err := ProofBuilderList{bA, bB, bC}.BuildProofList(ctx, n2, false)
	if err != nil {
		return
	}
	ljs, _ := json.Marshal(pl)
	pks := []*gabikeys.PublicKey{pk, pk, pk}
	var base ProofList
	_ = json.Unmarshal(ljs, &base)
	if !base.Verify(pks, ctx, n2, false, nil) {
		if !anyC11Ambiguous(base) {
			rec.Fail(rt, "honest-joint-nonrev-list-rejected", det("joint list of two credentials"))
		} else {
			rec.Violation("honest-nonrev-proof-rejected:other-hidden-response-below-2^580", det("joint list"))
		}
		return
	}
	rec.Control(true, "")
	tp := func(name string, f func(l ProofList)) bool {
		var l ProofList
		_ = json.Unmarshal(ljs, &l)
		f(l)
		var acc bool
		ps := vfh.Guard(func() { acc = l.Verify(pks, ctx, n2, false, nil) })
		rec.Case("transplant/"+name, true, fmt.Sprintf("tp|%s|%s|%v", w.kp.Name, name, w.history))
		if ps != "" {
			return rec.Fail(rt, ps+":"+name, det(name))
		}
		if acc {
			return rec.Fail(rt, "transplanted-nonrev-part-accepted:"+name, det(name))
		}
		return true
	}
	// ---- adversarial prover: credential A's proof carries a non-revocation part computed from
	// ANOTHER credential's (valid) witness, with the challenge hashed over exactly what the
	// verifier reconstructs. Control: the same construction with A's own witness is accepted.
	for _, variant := range []string{"control-own-witness", "foreign-witness/alpha-kept", "foreign-witness/alpha-deleted"} {
		src := w.other.cred
		if variant == "control-own-witness" {
			src = w.cred.cred
		}
		nb, err := src.NonrevBuildProofBuilder()
		if err != nil {
			continue
		}
		hidden := []int{0}
		for i := 2; i < len(w.cred.cred.Attributes); i++ {
			hidden = append(hidden, i)
		}
		ab, err := newAdvBuilder(w.kp, w.cred.cred, hidden, map[int]*big.Int{1: w.cred.cred.Attributes[1]})
		if err != nil {
			continue
		}
		// the revocation attribute's randomiser: the non-revocation builder's own one (honest tie)
		nbr := nonrevBuilderRandomizer(nb)
		if nbr == nil {
			rec.Class("whitebox-unavailable/NonRevocationProofBuilder.randomizer", 1)
			break
		}
		ab.aC[w.cred.revIdx] = nbr
		wb := &advNonrevWrapper{adv: ab, nb: nb, keepAlpha: variant == "foreign-witness/alpha-kept"}
		n3 := w.nextNonce()
		apl, err := ProofBuilderList{wb}.BuildProofList(ctx, n3, false)
		if err != nil || ab.negative {
			continue
		}
		ajs, err := json.Marshal(apl)
		if err != nil {
			continue
		}
		var back ProofList
		if json.Unmarshal(ajs, &back) != nil {
			continue
		}
		var acc bool
		ps := vfh.Guard(func() { acc = back.Verify(keys1(w.kp), ctx, n3, false, nil) })
		rec.Case("adversarial-prover/"+variant, true, fmt.Sprintf("ap|%s|%s|%v", w.kp.Name, variant, w.history))
		if ps != "" {
			rec.Fail(rt, ps+":"+variant, det(variant))
			return
		}
		if variant == "control-own-witness" {
			if !acc && c11Ambiguous(back[0].(*ProofD)) {
				continue
			}
			rec.Control(acc, "adversarial prover with the credential's own witness (null deviation) rejected")
			if !acc {
				break
			}
			continue
		}
		if acc {
			rec.Fail(rt, "nonrev-proof-from-foreign-witness-accepted:"+variant, det(variant))
			return
		}
	}

	_ = tp("nonrev-parts-swapped-between-credentials", func(l ProofList) {
		a, b := l[0].(*ProofD), l[1].(*ProofD)
		a.NonRevocationProof, b.NonRevocationProof = b.NonRevocationProof, a.NonRevocationProof
	}) && tp("nonrev-part-copied-from-other-credential", func(l ProofList) {
		l[0].(*ProofD).NonRevocationProof = l[1].(*ProofD).NonRevocationProof
	}) && tp("nonrev-part-attached-to-proof-made-without-it", func(l ProofList) {
		l[2].(*ProofD).NonRevocationProof = l[1].(*ProofD).NonRevocationProof
	}) && tp("nonrev-part-moved-to-proof-made-without-it", func(l ProofList) {
		l[2].(*ProofD).NonRevocationProof = l[1].(*ProofD).NonRevocationProof
		l[1].(*ProofD).NonRevocationProof = nil
	})
}

// TestVF_C11_Boundary: honest proofs in which another hidden attribute's randomiser is a small
// (legal) draw, so that its response is below the bound the verifier uses to find the
// revocation attribute. Each proof is verified repeatedly (map iteration order varies).
func TestVF_C11_Boundary(t *testing.T) {
	rec := vfh.New(t, "C11")
	defer rec.Flush()
	rec.Check(func(rt *rapid.T) {
		drawLibSeed(t, rt)
		w, err := c11Setup(rt)
		if err != nil {
			rt.Fatalf("setup: %v", err)
		}
		pk := w.kp.Pk
		b, err := w.cred.cred.CreateDisclosureProofBuilder([]int{1}, nil, true)
		if err != nil {
			rt.Fatalf("builder: %v", err)
		}
		// a legal value of the library's own distribution on [0, 2^LmCommit)
		victim := rapid.SampledFrom([]int{2, 3}).Draw(rt, "victim")
		bits := rapid.IntRange(1, 579-257).Draw(rt, "bits") // response = r + c*m stays below 2^580
		r := new(big.Int).SetBytes(rapid.SliceOfN(rapid.Byte(), (bits+7)/8, (bits+7)/8).Draw(rt, "r"))
		if !setAttrRandomizer(b, victim, r) {
			rec.Class("whitebox-unavailable/DisclosureProofBuilder.attrRandomizers", 1)
			rec.Case("boundary-directed/unavailable", true, "bd-unavailable")
			return
		}
		ctx, nonce := bi(1), bi(int64(rapid.IntRange(1, 1<<30).Draw(rt, "nonce")))
		pl, err := ProofBuilderList{b}.BuildProofList(ctx, nonce, false)
		if err != nil {
			rec.Fail(rt, "honest-nonrev-proof-creation-fails", map[string]any{"err": err.Error()})
			return
		}
		js, _ := json.Marshal(pl)
		rejected := 0
		const reps = 16
		for i := 0; i < reps; i++ {
			var l ProofList
			_ = json.Unmarshal(js, &l)
			if !l.Verify(keys1(w.kp), ctx, nonce, false, nil) {
				rejected++
			}
		}
		rec.Case("boundary-directed", true, fmt.Sprintf("bd|%s|%d|%s", w.kp.Name, victim, r))
		rec.Sample(func() any {
			return map[string]any{"key": w.kp.Name, "hidden_attribute_with_small_randomiser": victim, "randomiser_bits": r.BitLen(), "rejected_of_16": rejected}
		})
		_ = pk
		if rejected > 0 {
			rec.Fail(rt, "honest-nonrev-proof-rejected:other-hidden-response-below-2^580",
				map[string]any{"key": w.kp.Name, "victim_index": victim, "randomiser_bits": r.BitLen(), "rejected_of_16": rejected})
		}
	})
}

// advNonrevWrapper glues a harness-side disclosure prover to a non-revocation proof builder of
// any witness: contributions are ordered as the verifier reconstructs them.
type nonrevProver interface {
	Commit() ([]*big.Int, error)
	CreateProof(challenge *big.Int) *revocation.Proof
}

type advNonrevWrapper struct {
	adv       *advBuilder
	nb        nonrevProver
	keepAlpha bool
}

func (b *advNonrevWrapper) PublicKey() *gabikeys.PublicKey          { return b.adv.PublicKey() }
func (b *advNonrevWrapper) SetProofPCommitment(c *ProofPCommitment) { b.adv.SetProofPCommitment(c) }
func (b *advNonrevWrapper) Commit(r map[string]*big.Int) ([]*big.Int, error) {
	l, err := b.adv.Commit(r)
	if err != nil {
		return nil, err
	}
	nl, err := b.nb.Commit()
	if err != nil {
		return nil, err
	}
	return append(l, nl...), nil
}
func (b *advNonrevWrapper) CreateProof(c *big.Int) Proof {
	p := b.adv.CreateProof(c).(*ProofD)
	np := b.nb.CreateProof(c)
	if !b.keepAlpha {
		delete(np.Responses, "alpha")
	}
	p.NonRevocationProof = np
	return p
}

// harnessNonrev is a non-revocation prover written from the relations of the proof (not from the
// library's builder):  C_r = g^eps h^zeta,  nu = C_u^alpha h^-beta,  1 = C_r^alpha g^-beta h^-delta.
// With a witness u it proves honestly (the control). Without one it tries commitments C_u that are
// not units modulo n: then C_u^x = 0 whatever x is, the second relation's commitment is 0 for prover
// and verifier alike, and nothing ties the proof to nu any more.
type harnessNonrev struct {
	pk       *gabikeys.PublicKey
	e        *big.Int
	u        *big.Int // nil: no witness
	cu       *big.Int // used when u == nil
	sacc     *revocation.SignedAccumulator
	nu       *big.Int
	rAlpha   *big.Int
	r2, r3   *big.Int
	rnd      map[string]*big.Int
	cr, cuV  *big.Int
	zeroCr   bool
	negative bool
}

func hnRand(rt *rapid.T, label string, bits int) *big.Int {
	return new(big.Int).SetBytes(rapid.SliceOfN(rapid.Byte(), bits/8, bits/8).Draw(rt, label))
}

func newHarnessNonrev(rt *rapid.T, pk *gabikeys.PublicKey, e, u, cu *big.Int, sacc *revocation.SignedAccumulator, nu, rAlpha *big.Int) *harnessNonrev {
	nb := pk.N.BitLen()
	h := &harnessNonrev{pk: pk, e: e, u: u, cu: cu, sacc: sacc, nu: nu, rAlpha: rAlpha,
		r2: hnRand(rt, "r2", nb-8), r3: hnRand(rt, "r3", nb-8), rnd: map[string]*big.Int{}}
	h.rnd["beta"] = hnRand(rt, "rb", nb-8+384+192)
	h.rnd["delta"] = hnRand(rt, "rd", nb-8+384+192)
	h.rnd["epsilon"] = hnRand(rt, "re", nb-8+384)
	h.rnd["zeta"] = hnRand(rt, "rz", nb-8+384)
	return h
}

func (h *harnessNonrev) pow(base, exp *big.Int) *big.Int {
	if exp.Sign() >= 0 {
		return new(big.Int).Exp(base, exp, h.pk.N)
	}
	inv := new(big.Int).ModInverse(base, h.pk.N)
	return new(big.Int).Exp(inv, new(big.Int).Neg(exp), h.pk.N)
}

func (h *harnessNonrev) mul(xs ...*big.Int) *big.Int {
	r := bi(1)
	for _, x := range xs {
		r.Mul(r, x).Mod(r, h.pk.N)
	}
	return r
}

func (h *harnessNonrev) Commit() ([]*big.Int, error) {
	G, H := h.pk.G, h.pk.H
	h.cr = h.mul(h.pow(G, h.r2), h.pow(H, h.r3))
	tcr := h.mul(h.pow(G, h.rnd["epsilon"]), h.pow(H, h.rnd["zeta"]))
	var tnu *big.Int
	if h.u != nil {
		h.cuV = h.mul(h.u, h.pow(H, h.r2))
		tnu = h.mul(h.pow(h.cuV, h.rAlpha), h.pow(H, new(big.Int).Neg(h.rnd["beta"])))
	} else {
		h.cuV = new(big.Int).Set(h.cu)
		tnu = bi(0) // what the verifier computes from any responses when C_u = 0 mod n
	}
	tone := h.mul(h.pow(h.cr, h.rAlpha), h.pow(G, new(big.Int).Neg(h.rnd["beta"])), h.pow(H, new(big.Int).Neg(h.rnd["delta"])))
	return []*big.Int{h.cr, h.cuV, h.nu, tcr, tnu, tone}, nil
}

func (h *harnessNonrev) CreateProof(c *big.Int) *revocation.Proof {
	resp := func(r, secret *big.Int) *big.Int { return new(big.Int).Add(r, new(big.Int).Mul(c, secret)) }
	return &revocation.Proof{
		Cr: h.cr, Cu: h.cuV, Nu: h.nu, Challenge: c, SignedAccumulator: h.sacc,
		Responses: map[string]*big.Int{
			"alpha":   resp(h.rAlpha, h.e),
			"beta":    resp(h.rnd["beta"], new(big.Int).Mul(h.e, h.r2)),
			"delta":   resp(h.rnd["delta"], new(big.Int).Mul(h.e, h.r3)),
			"epsilon": resp(h.rnd["epsilon"], h.r2),
			"zeta":    resp(h.rnd["zeta"], h.r3),
		},
	}
}

// TestVF_C11_WitnesslessProver: a holder whose credential was revoked (no valid witness exists for
// the newest accumulator) runs the harness prover against the newest accumulator with C_u values
// that are not units. Control: the same prover with a valid witness before the revocation.
func TestVF_C11_WitnesslessProver(t *testing.T) {
	rec := vfh.New(t, "C11")
	defer rec.Flush()
	rec.Check(func(rt *rapid.T) {
		drawLibSeed(t, rt)
		w, err := c11Setup(rt)
		if err != nil {
			rt.Fatalf("setup: %v", err)
		}
		pk := w.kp.Pk
		cred := w.cred.cred
		ctx := bi(1)
		hidden := []int{0}
		for i := 2; i < len(cred.Attributes); i++ {
			hidden = append(hidden, i)
		}
		e := cred.NonRevocationWitness.E
		var forgedSacc *revocation.SignedAccumulator
		var forgedNu *big.Int
		run := func(name string, u, cu *big.Int, expectAccept bool) bool {
			ab, err := newAdvBuilder(w.kp, cred, hidden, map[int]*big.Int{1: cred.Attributes[1]})
			if err != nil {
				rt.Fatalf("adv: %v", err)
			}
			rAlpha := revocation.NewProofRandomizer()
			ab.aC[w.cred.revIdx] = rAlpha
			sacc, nu := w.world.sacc, w.world.acc.Nu
			if forgedSacc != nil {
				sacc, nu = forgedSacc, forgedNu
			}
			hn := newHarnessNonrev(rt, pk, e, u, cu, sacc, nu, rAlpha)
			wb := &advNonrevWrapper{adv: ab, nb: hn, keepAlpha: rapid.Bool().Draw(rt, "keepAlpha")}
			nonce := w.nextNonce()
			apl, err := ProofBuilderList{wb}.BuildProofList(ctx, nonce, false)
			if err != nil || ab.negative {
				rec.Class("witnessless/prover-gave-up", 1)
				return true
			}
			ajs, err := json.Marshal(apl)
			if err != nil {
				return true
			}
			det := map[string]any{"key": w.kp.Name, "strategy": name, "revoked_at": w.revAt, "accumulator_index": w.world.acc.Index}
			for _, how := range []string{"json", "memory"} {
				var l ProofList
				if how == "json" {
					if json.Unmarshal(ajs, &l) != nil {
						continue
					}
				} else {
					l = apl
				}
				var acc bool
				ps := vfh.Guard(func() { acc = l.Verify(keys1(w.kp), ctx, nonce, false, nil) })
				rec.Case("witnessless/"+name+"/"+how, !expectAccept, fmt.Sprintf("wl|%s|%s|%s|%d", w.kp.Name, name, how, w.nonce))
				if ps != "" {
					return rec.Fail(rt, ps+":"+name, det)
				}
				if !expectAccept && !acc {
					// a verifier that looks at the same proof object again must refuse it again
					ps := vfh.Guard(func() { acc = l.Verify(keys1(w.kp), ctx, nonce, false, nil) })
					if ps != "" {
						return rec.Fail(rt, ps+":"+name+":second-verification-of-the-same-object", det)
					}
					if acc {
						return rec.Fail(rt, "nonrev-proof-without-valid-witness-accepted:"+name+":second-verification-of-the-same-object", det)
					}
				}
				if expectAccept {
					if !acc && c11Ambiguous(l[0].(*ProofD)) {
						return false
					}
					rec.Control(acc, "harness non-revocation prover with a valid witness (null deviation) rejected")
					if !acc {
						return false
					}
				} else if acc {
					return rec.Fail(rt, "nonrev-proof-without-valid-witness-accepted:"+name, det)
				}
			}
			return true
		}
		// control, before the revocation
		if !run("control/valid-witness", cred.NonRevocationWitness.U, nil, true) {
			return
		}
		// the credential is revoked; the newest accumulator no longer contains e
		if _, err := w.world.revoke(e); err != nil {
			rt.Fatalf("revoke: %v", err)
		}
		w.revAt = w.world.acc.Index
		rec.Sample(func() any {
			return map[string]any{"key": w.kp.Name, "revoked_at": w.revAt, "strategies": "C_u = 0, n, 2n (no witness)"}
		})
		for _, s := range []struct {
			name string
			cu   *big.Int
		}{{"C_u=0", bi(0)}, {"C_u=n", new(big.Int).Set(pk.N)}, {"C_u=2n", new(big.Int).Lsh(pk.N, 1)}} {
			if !run(s.name, nil, s.cu, false) {
				return
			}
		}
		// an accumulator of the holder's own making (nu' = u^e for a u of his choice, any index and
		// time), "signed" with a key that is not the issuer's, and an otherwise honest proof against it
		okp := getKey("toyrev", (int(w.kp.Pk.Counter)+3)%8)
		if okp.Sk.N.Cmp(w.kp.Sk.N) != 0 {
			u := new(big.Int).Exp(pk.S, bi(int64(rapid.IntRange(2, 1<<20).Draw(rt, "forgedU"))), pk.N)
			forgedNu = new(big.Int).Exp(u, e, pk.N)
			facc := &revocation.Accumulator{Nu: forgedNu, Index: w.world.acc.Index + uint64(rapid.IntRange(0, 3).Draw(rt, "forgedIdx")), Time: w.world.acc.Time + 1000, EventHash: w.world.acc.EventHash}
			fs, err := facc.Sign(okp.Sk)
			if err == nil {
				forgedSacc = &revocation.SignedAccumulator{Data: fs.Data, PKCounter: pk.Counter}
				if !run("own-accumulator-not-signed-by-issuer", u, nil, false) {
					return
				}
			}
		}
	})
}
