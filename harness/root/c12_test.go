package gabi

// C12 part B - accepted disclosure proofs carry only verified, correctly tied range proofs.
// Honest proofs over generated true statements; false statements at the boundary must be
// refused at creation; then forgeries (transplants between indices / credentials, duplication,
// attachment, descriptor and response alterations, descriptor edge values). Oracle = integer
// truth: whenever verification ACCEPTS, every carried range proof sits on a hidden index of the
// proof and the statement it reports holds for the signed attribute value.

import (
	"encoding/json"
	"fmt"
	"math"
	gobig "math/big"
	"sort"
	"testing"

	"github.com/privacybydesign/gabi/big"
	"github.com/privacybydesign/gabi/gabikeys"
	"github.com/privacybydesign/gabi/internal/common"
	"github.com/privacybydesign/gabi/internal/vfh"
	"github.com/privacybydesign/gabi/rangeproof"
	"pgregory.net/rapid"
)

func refStmt(sign int, factor uint, bound *big.Int, m *big.Int) bool {
	v := new(gobig.Int).Mul(new(gobig.Int).SetUint64(uint64(factor)), m.Go())
	v.Sub(v, bound.Go())
	switch sign {
	case 1:
	case -1:
		v.Neg(v)
	default:
		return false
	}
	return v.Sign() >= 0
}

// c12Oracle returns "" if an accepted proof's range proofs are consistent with the signed values.
func c12Oracle(p *ProofD, attrs []*big.Int) string {
	for idx, rps := range p.RangeProofs {
		if _, hidden := p.AResponses[idx]; !hidden || idx <= 0 || idx >= len(attrs) {
			if len(rps) > 0 {
				return "accepted-proof-carries-range-proof-on-non-hidden-index"
			}
			continue
		}
		for _, rp := range rps {
			if rp == nil {
				return "accepted-proof-carries-null-range-proof"
			}
			typ, factor, bound := rp.ProvenStatement()
			sign, err := typ.Sign()
			if err != nil || (rp.Sign != 1 && rp.Sign != -1) {
				return "accepted-range-proof-with-unsupported-sign"
			}
			if !refStmt(sign, factor, bound, attrs[idx]) {
				return "accepted-range-proof-reports-false-statement"
			}
			// everything the library says the proof implies must hold as well
			for _, d := range []int64{-2, -1, 0, 1, 2} {
				q := new(big.Int).Add(bound, bi(d))
				for _, s2 := range []int{1, -1} {
					if rp.ProvesStatement(s2, factor, q) && !refStmt(s2, factor, q, attrs[idx]) {
						return "accepted-range-proof-implies-false-statement"
					}
				}
			}
		}
	}
	return ""
}

func TestVF_C12_Forgeries(t *testing.T) {
	rec := vfh.New(t, "C12")
	defer rec.Flush()
	rec.Check(func(rt *rapid.T) {
		drawLibSeed(t, rt)
		kp := drawKey(rt, false, true)
		pk := kp.Pk
		// two credentials with 4 attributes; attribute values small enough for table statements
		nattr := rapid.IntRange(4, 6).Draw(rt, "nattr")
		mk := func(label string) []*big.Int {
			var out []*big.Int
			for i := 0; i < nattr; i++ {
				out = append(out, bi(int64(rapid.IntRange(1000, 1<<30).Draw(rt, fmt.Sprintf("%s%d", label, i)))))
			}
			return out
		}
		attrsA, attrsB := mk("a"), mk("b")
		secret := genSecret(rt, "secret")
		credA, err := issueDirect(kp, secret, attrsA)
		if err != nil {
			rt.Fatalf("issue: %v", err)
		}
		credB, err := issueDirect(kp, secret, attrsB)
		if err != nil {
			rt.Fatalf("issue: %v", err)
		}
		// statements on hidden attributes 2 and/or 3 of credential A (1 is disclosed, 4 hidden without statements)
		type gst struct {
			idx  int
			s    *c13Stmt
			desc string
		}
		var sts []gst
		ns := rapid.IntRange(1, 3).Draw(rt, "nstmts")
		for k := 0; k < ns; k++ {
			idx := rapid.IntRange(2, nattr).Draw(rt, "idx")
			m := credA.Attributes[idx]
			sign := rapid.SampledFrom([]int{1, -1}).Draw(rt, "sign")
			var s *c13Stmt
			if rapid.Bool().Draw(rt, "three") {
				s = mkStmt(m, sign, 1, bi(int64(rapid.IntRange(0, 255).Draw(rt, "tdelta"))), 255)
			} else {
				s = mkStmt(m, sign, uint(rapid.IntRange(1, 8).Draw(rt, "factor")), bi(int64(rapid.IntRange(0, 1<<20).Draw(rt, "delta"))), -1)
			}
			if s.bound.Sign() <= 0 {
				s = mkStmt(m, -1, s.factor, s.delta, s.limit) // bounds travel as non-negative integers
			}
			sts = append(sts, gst{idx, s, fmt.Sprintf("attr%d: %s", idx, s)})
		}
		rs := map[int][]*rangeproof.Statement{}
		descs := []string{}
		for _, g := range sts {
			rs[g.idx] = append(rs[g.idx], g.s.statement())
			descs = append(descs, g.desc)
		}
		// disclosure set: attribute 1 always, others (without statements) at random - so that the
		// number of hidden attributes varies relative to the indices carrying range proofs
		D := []int{1}
		for i := 2; i <= nattr; i++ {
			if _, has := rs[i]; !has && rapid.Bool().Draw(rt, fmt.Sprintf("disc%d", i)) {
				D = append(D, i)
			}
		}
		descs = append(descs, fmt.Sprintf("disclosed=%v of %d attributes", D, nattr))
		isD := map[int]bool{}
		for _, i := range D {
			isD[i] = true
		}
		ctx := bi(int64(rapid.IntRange(1, 1<<30).Draw(rt, "ctx")))
		nonce := bi(int64(rapid.IntRange(1, 1<<30).Draw(rt, "nonce")))
		det := func(what string) map[string]any {
			return map[string]any{"key": kp.Name, "attrsA": fmt.Sprint(attrsA), "attrsB": fmt.Sprint(attrsB), "statements": descs, "forgery": what}
		}

		// ---- false statements one beyond the boundary must be refused
		for _, g := range sts {
			f := mkStmt(credA.Attributes[g.idx], g.s.sign, g.s.factor, bi(0), g.s.limit)
			// make it false by one: sign=+1: bound = factor*m + 1; sign=-1: bound = factor*m - 1
			if g.s.sign == 1 {
				f.bound.Add(f.bound, bi(1))
			} else {
				f.bound.Sub(f.bound, bi(1))
			}
			if f.bound.Sign() < 0 {
				continue
			}
			var p *ProofD
			var err error
			ps := vfh.Guard(func() {
				p, err = credA.CreateDisclosureProof(D, map[int][]*rangeproof.Statement{g.idx: {f.statement()}}, false, ctx, nonce)
			})
			rec.Case("false-statement-at-boundary", true, fmt.Sprintf("f|%s|%s|%v", kp.Name, g.desc, attrsA))
			if ps != "" {
				rec.Fail(rt, ps, det("false statement "+f.String()))
				return
			}
			if err == nil {
				acc := p.Verify(pk, ctx, nonce, false)
				rec.Fail(rt, fmt.Sprintf("proof-of-false-statement-created(verifies=%v)", acc), det("false statement "+f.String()))
				return
			}
		}

		// ---- a prover-side splitter that reports 4 squares while the structure is built (so the
		// three-square rescaling is skipped) and 3 afterwards: the proof then has three C's but an
		// unscaled factor. Verification must refuse it (or, if it accepts, the truth oracle judges
		// what the library reports about it).
		{
			idx := sts[0].idx
			m := credA.Attributes[idx]
			// pick a difference that is a sum of three squares
			d := int64(rapid.SampledFrom([]int{0, 1, 2, 3, 5, 6, 9, 14, 17, 27}).Draw(rt, "d3"))
			ls := &lyingSplitter{}
			st := &rangeproof.Statement{Sign: 1, Factor: 1, Bound: new(big.Int).Sub(m, bi(d)), Splitter: ls}
			var p *ProofD
			var err error
			ps := vfh.Guard(func() {
				p, err = credA.CreateDisclosureProof(D, map[int][]*rangeproof.Statement{idx: {st}}, false, ctx, nonce)
			})
			if ps == "" && err == nil && p != nil {
				js2, _ := json.Marshal(p)
				var back ProofD
				if json.Unmarshal(js2, &back) == nil {
					var acc bool
					ps2 := vfh.Guard(func() { acc = back.Verify(pk, ctx, nonce, false) })
					rec.Case("forgery/three-squares-with-unscaled-factor", true, fmt.Sprintf("ls|%s|%d|%v", kp.Name, d, attrsA))
					if ps2 != "" {
						rec.Fail(rt, ps2+":three-squares-with-unscaled-factor", det("lying splitter"))
						return
					}
					if acc {
						if v := c12Oracle(&back, credA.Attributes); v != "" {
							rec.Fail(rt, v+":three-squares-with-unscaled-factor", det("lying splitter"))
							return
						}
					}
				}
			} else {
				rec.Class("lying-splitter-proof-not-created", 1)
			}
		}

		// ---- honest list: credential A with range proofs, credential B without, same session
		bA, err := credA.CreateDisclosureProofBuilder(D, rs, false)
		if err != nil {
			rec.Fail(rt, "honest-builder-error", det(err.Error()))
			return
		}
		bB, err := credB.CreateDisclosureProofBuilder(D, nil, false)
		if err != nil {
			rec.Fail(rt, "honest-builder-error", det(err.Error()))
			return
		}
		pl, err := ProofBuilderList{bA, bB}.BuildProofList(ctx, nonce, false)
		if err != nil {
			rec.Fail(rt, "honest-list-error", det(err.Error()))
			return
		}
		js, err := json.Marshal(pl)
		if err != nil {
			rec.Fail(rt, "honest-list-marshal-error", det(err.Error()))
			return
		}
		pks := []*gabikeys.PublicKey{pk, pk}
		truth := [][]*big.Int{credA.Attributes, credB.Attributes}

		// present: f edits a freshly decoded copy; the verdict is judged by the truth oracle
		present := func(name string, mustReject bool, f func(l ProofList) bool) bool {
			var l ProofList
			if err := json.Unmarshal(js, &l); err != nil {
				rt.Fatalf("decode: %v", err)
			}
			if f != nil && !f(l) {
				return true
			}
			rec.Case("forgery/"+name, true, fmt.Sprintf("g|%s|%v|%s", kp.Name, descs, name))
			// the same decoded object is verified twice (a verifier may check a proof on its own
			// and again as part of a list): both verdicts are judged, a rejection must not turn
			// into an acceptance
			for round, tag := range []string{"", ":second-verification-of-the-same-object"} {
				var acc bool
				ps := vfh.Guard(func() { acc = l.Verify(pks, ctx, nonce, false, nil) })
				if ps != "" {
					return rec.Fail(rt, ps+":"+name+tag, det(name))
				}
				if !acc {
					if f == nil {
						return rec.Fail(rt, "honest-range-proof-list-rejected"+tag, det(name))
					}
					continue
				}
				if round == 1 {
					rec.Class("accepted-on-second-verification", 1)
				}
				for i, p := range l {
					if v := c12Oracle(p.(*ProofD), truth[i]); v != "" {
						return rec.Fail(rt, v+":"+name+tag, det(name))
					}
				}
				if mustReject {
					return rec.Fail(rt, "forged-range-proof-placement-accepted:"+name+tag, det(name))
				}
			}
			return true
		}
		rec.Sample(func() any { return det("none (honest list: credential A with range proofs, credential B without)") })
		if !present("none", false, nil) {
			return
		}
		first := sts[0].idx
		A := func(l ProofList) *ProofD { return l[0].(*ProofD) }
		B := func(l ProofList) *ProofD { return l[1].(*ProofD) }
		move := func(to int) func(l ProofList) bool {
			return func(l ProofList) bool {
				p := A(l)
				if to == first {
					return false
				}
				p.RangeProofs[to] = append(p.RangeProofs[to], p.RangeProofs[first]...)
				delete(p.RangeProofs, first)
				return true
			}
		}
		var otherHidden []int
		for i := 2; i <= nattr; i++ {
			if !isD[i] && i != first {
				otherHidden = append(otherHidden, i)
			}
		}
		for _, oh := range otherHidden {
			if !present("moved-to-other-hidden-index", true, move(oh)) {
				return
			}
		}
		if !present("moved-to-disclosed-index", true, move(D[len(D)-1])) ||
			!present("moved-to-secret-key-index", true, move(0)) ||
			!present("moved-beyond-largest-hidden-index", true, move(nattr+1)) ||
			!present("moved-to-last-base", true, move(len(pk.R)-1)) ||
			!present("moved-to-index-len(R)", true, move(len(pk.R))) ||
			!present("moved-to-negative-index", true, move(-1)) {
			return
		}
		// attached to the other credential's proof (made without range statements) at each of its
		// hidden indices: must be rejected - and if accepted, the truth oracle judges the claim
		for i := 2; i <= nattr; i++ {
			i := i
			if isD[i] {
				continue
			}
			if !present("copied-to-other-credential-at-hidden-index", true, func(l ProofList) bool {
				B(l).RangeProofs = map[int][]*rangeproof.Proof{i: A(l).RangeProofs[first]}
				return true
			}) {
				return
			}
		}
		if !present("copied-beyond-largest-hidden-index", true, func(l ProofList) bool {
			p := A(l)
			p.RangeProofs[nattr+1] = p.RangeProofs[first]
			return true
		}) || !present("duplicated-at-same-index", true, func(l ProofList) bool {
			p := A(l)
			p.RangeProofs[first] = append(p.RangeProofs[first], p.RangeProofs[first][0])
			return true
		}) || !present("transplanted-to-other-credential-same-index", true, func(l ProofList) bool {
			B(l).RangeProofs = map[int][]*rangeproof.Proof{first: A(l).RangeProofs[first]}
			delete(A(l).RangeProofs, first)
			return true
		}) || !present("copied-to-other-credential", true, func(l ProofList) bool {
			B(l).RangeProofs = map[int][]*rangeproof.Proof{first: A(l).RangeProofs[first]}
			return true
		}) || !present("range-proofs-removed", true, func(l ProofList) bool {
			A(l).RangeProofs = nil
			return true
		}) || !present("one-range-proof-removed", true, func(l ProofList) bool {
			p := A(l)
			p.RangeProofs[first] = p.RangeProofs[first][1:]
			if len(p.RangeProofs[first]) == 0 {
				delete(p.RangeProofs, first)
			}
			return true
		}) {
			return
		}
		// a range proof whose descriptor cannot even be turned into a structure (l_d too large, too
		// few C's) and that claims a false statement, attached to either proof
		for i := 2; i <= nattr; i++ {
			i := i
			if isD[i] {
				continue
			}
			for _, how := range []string{"l_d=Lm+1", "two-Cs", "k-absent"} {
				how := how
				for _, target := range []string{"A", "B"} {
					target := target
					if !present("unverifiable-false-claim/"+how+"/on-"+target, true, func(l ProofList) bool {
						src := A(l).RangeProofs[first][0]
						bogus := *src
						bogus.Sign = 1
						bogus.A = 1
						bogus.K = new(big.Int).Add(truth[map[string]int{"A": 0, "B": 1}[target]][i], bi(5)) // m >= m+5
						switch how {
						case "l_d=Lm+1":
							bogus.Ld = pk.Params.Lm + 1
						case "two-Cs":
							bogus.Cs = bogus.Cs[:2]
						case "k-absent":
							bogus.K = nil
						}
						t := B(l)
						if target == "A" {
							t = A(l)
						}
						if t.RangeProofs == nil {
							t.RangeProofs = map[int][]*rangeproof.Proof{}
						}
						t.RangeProofs[i] = append(t.RangeProofs[i], &bogus)
						return true
					}) {
						return
					}
				}
			}
		}
		// descriptor and response alterations of the first carried range proof
		rp := func(l ProofList) *rangeproof.Proof { return A(l).RangeProofs[first][0] }
		alts := map[string]func(l ProofList) bool{
			"k+1":          func(l ProofList) bool { rp(l).K.Add(rp(l).K, bi(1)); return true },
			"k-1":          func(l ProofList) bool { rp(l).K.Sub(rp(l).K, bi(1)); return rp(l).K.Sign() >= 0 },
			"k+4":          func(l ProofList) bool { rp(l).K.Add(rp(l).K, bi(4)); return true },
			"k=0":          func(l ProofList) bool { ok := rp(l).K.Sign() != 0; rp(l).K.SetInt64(0); return ok },
			"k-huge":       func(l ProofList) bool { rp(l).K.Lsh(bi(1), pk.Params.Lm+64); return true },
			"k-too-huge":   func(l ProofList) bool { rp(l).K.Lsh(bi(1), pk.Params.Lm+65); return true },
			"a+1":          func(l ProofList) bool { rp(l).A++; return true },
			"a=0":          func(l ProofList) bool { rp(l).A = 0; return true },
			"a=2^63":       func(l ProofList) bool { rp(l).A = 1 << 63; return true },
			"a*4":          func(l ProofList) bool { rp(l).A *= 4; return true },
			"sign-flipped": func(l ProofList) bool { rp(l).Sign = -rp(l).Sign; return true },
			"sign=0":       func(l ProofList) bool { rp(l).Sign = 0; return true },
			"sign=2":       func(l ProofList) bool { rp(l).Sign = 2; return true },
			"l_d=Lm":       func(l ProofList) bool { rp(l).Ld = pk.Params.Lm; return true },
			"l_d=Lm+1":     func(l ProofList) bool { rp(l).Ld = pk.Params.Lm + 1; return true },
			"l_d=0":        func(l ProofList) bool { rp(l).Ld = 0; return true },
			"Cs-truncated": func(l ProofList) bool { rp(l).Cs = rp(l).Cs[:len(rp(l).Cs)-1]; return true },
			"Cs-extended":  func(l ProofList) bool { rp(l).Cs = append(rp(l).Cs, rp(l).Cs[0]); return true },
			"Cs-swapped": func(l ProofList) bool {
				c := rp(l).Cs
				if c[0].Cmp(c[1]) == 0 {
					return false
				}
				c[0], c[1] = c[1], c[0]
				return true
			},
			"C0*S": func(l ProofList) bool { rp(l).Cs[0].Mul(rp(l).Cs[0], pk.S).Mod(rp(l).Cs[0], pk.N); return true },
			"d0+1": func(l ProofList) bool { rp(l).DResponses[0].Add(rp(l).DResponses[0], bi(1)); return true },
			"v0+1": func(l ProofList) bool { rp(l).VResponses[0].Add(rp(l).VResponses[0], bi(1)); return true },
			"v5+1": func(l ProofList) bool { rp(l).V5Response.Add(rp(l).V5Response, bi(1)); return true },
			"ds-swapped": func(l ProofList) bool {
				d := rp(l).DResponses
				if d[0].Cmp(d[1]) == 0 {
					return false
				}
				d[0], d[1] = d[1], d[0]
				return true
			},
			"hidden-response+1": func(l ProofList) bool { A(l).AResponses[first].Add(A(l).AResponses[first], bi(1)); return true },
		}
		var altNames []string
		for name := range alts {
			altNames = append(altNames, name)
		}
		sort.Strings(altNames)
		for _, name := range altNames {
			f := alts[name]
			// l_d is not bound by the challenge: a larger admissible value only loosens a size limit
			must := name != "l_d=Lm"
			if !present("altered/"+name, must, f) {
				return
			}
		}
	})
}

// lyingSplitter: SquareCount() is 4 on its first call and 3 afterwards; Split returns three squares.
type lyingSplitter struct{ calls int }

func (l *lyingSplitter) Ld() uint { return 8 }
func (l *lyingSplitter) SquareCount() int {
	l.calls++
	if l.calls == 1 {
		return 4
	}
	return 3
}
func (l *lyingSplitter) Split(delta *big.Int) ([]*big.Int, error) {
	d := delta.Int64()
	for a := int64(0); a*a <= d; a++ {
		for b := int64(0); a*a+b*b <= d; b++ {
			for c := int64(0); a*a+b*b+c*c <= d; c++ {
				if a*a+b*b+c*c == d {
					return []*big.Int{bi(a), bi(b), bi(c)}, nil
				}
			}
		}
	}
	return nil, fmt.Errorf("not a sum of three squares")
}

// ---------- harness-side range prover (written from the relations, not from the library's prover)
//
//   C_i = R^{d_i} S^{v_i}            (i < squares)
//   R^{-sign*k} = S^{-v5} R^{-a*sign*m} prod C_i^{d_i}      with  sum d_i^2 = sign*(a*m - k)
//
// Honest mode (the control) proves a true statement. The degenerate modes claim a FALSE statement with
// commitments C_i that are not units modulo n: every term C_i^x is then 0, all reconstructed
// commitments collapse to 0 whatever the responses are, and nothing ties the claim to m any more.

type harnessRange struct {
	pk    *gabikeys.PublicKey
	idx   int
	sign  int
	a     uint
	k     *big.Int
	m, rm *big.Int
	d, v  []*big.Int // honest mode
	rd    []*big.Int
	rv    []*big.Int
	v5    *big.Int
	rv5   *big.Int
	cs    []*big.Int
	mode  string // "honest", "Cs=0", "Cs=n", "C0=0"
	// presetMResponse: the range part is made for h.m (which then is NOT the credential's attribute)
	// and carries the matching m response itself
	presetMResponse bool
}

func (h *harnessRange) exp(base, e *big.Int) *big.Int {
	if e.Sign() >= 0 {
		return new(big.Int).Exp(base, e, h.pk.N)
	}
	inv := new(big.Int).ModInverse(base, h.pk.N)
	return new(big.Int).Exp(inv, new(big.Int).Neg(e), h.pk.N)
}

func (h *harnessRange) commit(rt *rapid.T) []*big.Int {
	pk := h.pk
	R, S := pk.R[h.idx], pk.S
	n := 4
	rnd := func(label string, bits uint) *big.Int {
		return new(big.Int).SetBytes(rapid.SliceOfN(rapid.Byte(), int(bits/8), int(bits/8)).Draw(rt, label))
	}
	const ld = 64
	h.rd, h.rv, h.cs = nil, nil, nil
	for i := 0; i < n; i++ {
		h.rd = append(h.rd, rnd(fmt.Sprintf("rd%d", i), ld+pk.Params.Lh+pk.Params.Lstatzk))
		h.rv = append(h.rv, rnd(fmt.Sprintf("rv%d", i), pk.Params.Lm+pk.Params.Lh+pk.Params.Lstatzk))
	}
	h.rv5 = rnd("rv5", pk.Params.Lm+ld+pk.Params.Lh+pk.Params.Lstatzk)
	if h.mode == "honest" || h.mode == "wrapped-factor" {
		// the factor as the verifier's relation uses it: a machine integer (wraps for a >= 2^63)
		delta := new(big.Int).Mul(h.m, bi(int64(h.a)))
		delta.Sub(delta, h.k)
		if h.sign == -1 {
			delta.Neg(delta)
		}
		h.d = fourSquaresSmall(delta.Int64())
		h.v, h.v5 = nil, bi(0)
		for i := 0; i < n; i++ {
			h.v = append(h.v, rnd(fmt.Sprintf("v%d", i), pk.Params.Lm-8))
			h.v5.Add(h.v5, new(big.Int).Mul(h.d[i], h.v[i]))
			c := new(big.Int).Mul(h.exp(R, h.d[i]), h.exp(S, h.v[i]))
			h.cs = append(h.cs, c.Mod(c, pk.N))
		}
		// t_m = S^{-rv5} R^{-a*sign*rm} prod C_i^{rd_i}
		tm := h.exp(S, new(big.Int).Neg(h.rv5))
		e := new(big.Int).Mul(h.rm, bi(-int64(h.a)*int64(h.sign)))
		tm.Mul(tm, h.exp(R, e)).Mod(tm, pk.N)
		for i := 0; i < n; i++ {
			tm.Mul(tm, h.exp(h.cs[i], h.rd[i])).Mod(tm, pk.N)
		}
		out := []*big.Int{tm}
		for i := 0; i < n; i++ {
			t := new(big.Int).Mul(h.exp(R, h.rd[i]), h.exp(S, h.rv[i]))
			out = append(out, t.Mod(t, pk.N))
		}
		return out
	}
	// degenerate: claimed d_i = v_i = 0
	h.d, h.v, h.v5 = nil, nil, bi(0)
	for i := 0; i < n; i++ {
		h.d = append(h.d, bi(0))
		h.v = append(h.v, bi(0))
		c := bi(0)
		switch {
		case h.mode == "Cs=n":
			c = new(big.Int).Set(pk.N)
		case h.mode == "C0=0" && i > 0:
			c = h.exp(S, bi(int64(i)+1)) // an ordinary unit; only C_0 is degenerate
		}
		h.cs = append(h.cs, c)
	}
	out := []*big.Int{bi(0)} // t_m: contains C_0^{x} = 0
	for i := 0; i < n; i++ {
		if h.cs[i].Sign() == 0 || h.cs[i].Cmp(pk.N) == 0 {
			out = append(out, bi(0)) // C_i has no inverse: the verifier's C_i^{-c} stays 0
			continue
		}
		// C_i = S^{i+1} is a unit: prove it honestly (d_i = 0, v_i = i+1)
		h.v[i] = bi(int64(i) + 1)
		t := new(big.Int).Mul(h.exp(R, h.rd[i]), h.exp(S, h.rv[i]))
		out = append(out, t.Mod(t, pk.N))
	}
	return out
}

func (h *harnessRange) proof(c *big.Int) *rangeproof.Proof {
	p := &rangeproof.Proof{Ld: 64, Sign: h.sign, A: h.a, K: new(big.Int).Set(h.k), Cs: h.cs}
	for i := range h.cs {
		p.DResponses = append(p.DResponses, new(big.Int).Add(h.rd[i], new(big.Int).Mul(c, h.d[i])))
		p.VResponses = append(p.VResponses, new(big.Int).Add(h.rv[i], new(big.Int).Mul(c, h.v[i])))
	}
	p.V5Response = new(big.Int).Add(h.rv5, new(big.Int).Mul(c, h.v5))
	if h.presetMResponse {
		// an in-memory proof may carry its own m response (the field does not travel in JSON)
		p.MResponse = new(big.Int).Add(h.rm, new(big.Int).Mul(c, h.m))
	}
	return p
}

type advRangeWrapper struct {
	adv *advBuilder
	hr  *harnessRange
	rt  *rapid.T
}

func (b *advRangeWrapper) PublicKey() *gabikeys.PublicKey          { return b.adv.PublicKey() }
func (b *advRangeWrapper) SetProofPCommitment(c *ProofPCommitment) { b.adv.SetProofPCommitment(c) }
func (b *advRangeWrapper) Commit(r map[string]*big.Int) ([]*big.Int, error) {
	l, err := b.adv.Commit(r)
	if err != nil {
		return nil, err
	}
	return append(l, b.hr.commit(b.rt)...), nil
}
func (b *advRangeWrapper) CreateProof(c *big.Int) Proof {
	p := b.adv.CreateProof(c).(*ProofD)
	p.RangeProofs = map[int][]*rangeproof.Proof{b.hr.idx: {b.hr.proof(c)}}
	return p
}

func TestVF_C12_DegenerateCommitments(t *testing.T) {
	rec := vfh.New(t, "C12")
	defer rec.Flush()
	rec.Check(func(rt *rapid.T) {
		drawLibSeed(t, rt)
		kp := drawKey(rt, false, true)
		pk := kp.Pk
		attrs := []*big.Int{bi(int64(rapid.IntRange(1000, 1<<30).Draw(rt, "a1"))), bi(int64(rapid.IntRange(1000, 1<<30).Draw(rt, "a2"))), bi(int64(rapid.IntRange(1000, 1<<30).Draw(rt, "a3")))}
		cred, err := issueDirect(kp, genSecret(rt, "secret"), attrs)
		if err != nil {
			rt.Fatalf("issue: %v", err)
		}
		idx := rapid.IntRange(2, 3).Draw(rt, "idx")
		m := cred.Attributes[idx]
		sign := rapid.SampledFrom([]int{1, -1}).Draw(rt, "sign")
		a := uint(rapid.IntRange(1, 4).Draw(rt, "factor"))
		gap := bi(int64(rapid.IntRange(1, 1<<20).Draw(rt, "gap")))
		am := new(big.Int).Mul(m, bi(int64(a)))
		ctx, nonce := bi(1), bi(int64(rapid.IntRange(1, 1<<30).Draw(rt, "nonce")))
		run := func(mode string) bool {
			// true statement for the control (a*m >= a*m - gap, or a*m <= a*m + gap), false one otherwise
			k := new(big.Int).Sub(am, gap)
			if (sign == -1) != (mode != "honest") {
				k = new(big.Int).Add(am, gap)
			}
			ab, err := newAdvBuilder(kp, cred, []int{0, 2, 3}, map[int]*big.Int{1: cred.Attributes[1]})
			if err != nil {
				rt.Fatalf("adv: %v", err)
			}
			hr := &harnessRange{pk: pk, idx: idx, sign: sign, a: a, k: k, m: m, rm: ab.aC[idx], mode: mode}
			pl, err := ProofBuilderList{&advRangeWrapper{adv: ab, hr: hr, rt: rt}}.BuildProofList(ctx, nonce, false)
			if err != nil || ab.negative {
				rec.Class("degenerate/prover-gave-up", 1)
				return true
			}
			js, err := json.Marshal(pl)
			if err != nil {
				return true
			}
			var back ProofList
			if json.Unmarshal(js, &back) != nil {
				return true
			}
			det := map[string]any{"key": kp.Name, "attrs": fmt.Sprint(attrs), "index": idx, "claim": fmt.Sprintf("sign=%d factor=%d k=%s", sign, a, k), "mode": mode}
			var acc bool
			ps := vfh.Guard(func() { acc = back.Verify(keys1(kp), ctx, nonce, false, nil) })
			rec.Case("harness-range-prover/"+mode, mode != "honest", fmt.Sprintf("hr|%s|%v|%d|%d|%d|%s|%s", kp.Name, attrs, idx, sign, a, k, mode))
			if ps != "" {
				return rec.Fail(rt, ps+":harness-range-prover:"+mode, det)
			}
			if mode == "honest" {
				rec.Control(acc, "harness range prover with a true statement (null deviation) rejected")
				return acc
			}
			if acc {
				if v := c12Oracle(back[0].(*ProofD), cred.Attributes); v != "" {
					return rec.Fail(rt, v+":degenerate-commitments:"+mode, det)
				}
			}
			return true
		}
		if !run("honest") {
			return
		}
		rec.Sample(func() any {
			return map[string]any{"key": kp.Name, "index": idx, "false_claims_with": "C_i = 0, C_i = n, only C_0 = 0"}
		})
		for _, mode := range []string{"Cs=0", "Cs=n", "C0=0"} {
			if !run(mode) {
				return
			}
		}
		// a range proof about another value m' (true for m', false for the signed m), made with the
		// attribute's randomiser and carrying its own m response; presented in memory
		{
			mp := new(big.Int).Add(m, gap) // m' = m + gap; claim: m >= m + gap/2 ... true for m' only
			k := new(big.Int).Add(m, bi(1))
			if sign == -1 {
				mp = new(big.Int).Sub(m, gap)
				if mp.Sign() < 0 {
					mp = bi(0)
				}
				k = new(big.Int).Sub(m, bi(1))
			}
			ab, err := newAdvBuilder(kp, cred, []int{0, 2, 3}, map[int]*big.Int{1: cred.Attributes[1]})
			if err != nil {
				rt.Fatalf("adv: %v", err)
			}
			// sign=+1: m' >= m+1 holds for m' = m+gap, not for m; sign=-1: m' <= m-1 holds for m' = m-gap
			hr := &harnessRange{pk: pk, idx: idx, sign: sign, a: 1, k: k, m: mp, rm: ab.aC[idx], mode: "honest", presetMResponse: true}
			pl, err := ProofBuilderList{&advRangeWrapper{adv: ab, hr: hr, rt: rt}}.BuildProofList(ctx, nonce, false)
			if err == nil && !ab.negative && mp.Cmp(m) != 0 {
				det := map[string]any{"key": kp.Name, "attrs": fmt.Sprint(attrs), "index": idx, "claim": fmt.Sprintf("sign=%d factor=1 k=%s (proved for m'=%s)", sign, k, mp), "mode": "range-part-about-another-value-with-own-m-response(in memory)"}
				var acc bool
				ps := vfh.Guard(func() { acc = pl.Verify(keys1(kp), ctx, nonce, false, nil) })
				rec.Case("harness-range-prover/own-m-response", true, fmt.Sprintf("hm|%s|%v|%d|%d|%s", kp.Name, attrs, idx, sign, mp))
				if ps != "" {
					rec.Fail(rt, ps+":harness-range-prover:own-m-response", det)
					return
				}
				if acc {
					if v := c12Oracle(pl[0].(*ProofD), cred.Attributes); v != "" {
						rec.Fail(rt, v+":own-m-response", det)
						return
					}
				}
			}
		}
		// factor 2^64 - f: the relation is computed with the machine integer -f, so that
		// -(−f*m − k) = f*m + k >= 0 holds for every m, while the proof's descriptor says (2^64-f)*m <= k
		f := uint(rapid.IntRange(1, 4).Draw(rt, "wrapf"))
		kw := bi(int64(rapid.IntRange(0, 1000).Draw(rt, "wrapk")))
		ab, err := newAdvBuilder(kp, cred, []int{0, 2, 3}, map[int]*big.Int{1: cred.Attributes[1]})
		if err != nil {
			rt.Fatalf("adv: %v", err)
		}
		hr := &harnessRange{pk: pk, idx: idx, sign: -1, a: -f, k: kw, m: m, rm: ab.aC[idx], mode: "wrapped-factor"}
		pl, err := ProofBuilderList{&advRangeWrapper{adv: ab, hr: hr, rt: rt}}.BuildProofList(ctx, nonce, false)
		if err == nil && !ab.negative {
			js, _ := json.Marshal(pl)
			var back ProofList
			if json.Unmarshal(js, &back) == nil {
				det := map[string]any{"key": kp.Name, "attrs": fmt.Sprint(attrs), "index": idx, "claim": fmt.Sprintf("sign=-1 factor=2^64-%d k=%s", f, kw), "mode": "wrapped-factor"}
				var acc bool
				ps := vfh.Guard(func() { acc = back.Verify(keys1(kp), ctx, nonce, false, nil) })
				rec.Case("harness-range-prover/wrapped-factor", true, fmt.Sprintf("hw|%s|%v|%d|%d|%s", kp.Name, attrs, idx, f, kw))
				if ps != "" {
					rec.Fail(rt, ps+":harness-range-prover:wrapped-factor", det)
					return
				}
				if acc {
					if v := c12Oracle(back[0].(*ProofD), cred.Attributes); v != "" {
						rec.Fail(rt, v+":wrapped-factor", det)
						return
					}
				}
			}
		}
	})
}

// fourSquaresSmall: a decomposition of a small non-negative integer into four squares (greedy search)
func fourSquaresSmall(n int64) []*big.Int {
	if n < 0 {
		panic(fmt.Sprintf("vf: fourSquaresSmall(%d): harness asked for a decomposition of a negative number", n))
	}
	isqrt := func(x int64) int64 {
		r := int64(math.Sqrt(float64(x)))
		for r*r > x {
			r--
		}
		for (r+1)*(r+1) <= x {
			r++
		}
		return r
	}
	budget := 2000000 // numbers with very few representations (2*4^k) would take the greedy search forever
search:
	for a := isqrt(n); a >= 0; a-- {
		r1 := n - a*a
		for b := isqrt(r1); b >= 0; b-- {
			r2 := r1 - b*b
			for c := isqrt(r2); c >= 0; c-- {
				r3 := r2 - c*c
				d := isqrt(r3)
				if d*d == r3 {
					return []*big.Int{bi(a), bi(b), bi(c), bi(d)}
				}
				if budget--; budget < 0 {
					break search
				}
			}
		}
	}
	// fall back to the library's decomposition (any decomposition will do for the prover; it is checked)
	x, y, z, w := common.SumFourSquares(bi(n))
	sum := bi(0)
	for _, v := range []*big.Int{x, y, z, w} {
		sum.Add(sum, new(big.Int).Mul(v, v))
	}
	if sum.Cmp(bi(n)) != 0 {
		panic("no four-square decomposition")
	}
	return []*big.Int{x, y, z, w}
}
