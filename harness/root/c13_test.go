package gabi

// C13 - Every true supported inequality is provable.
// Generator: hidden attribute m and statements sign*(factor*m - bound) >= 0 that are TRUE by
// construction (bound := factor*m - sign*delta for a generated difference delta >= 0), with the
// four-square splitter (factor 1..8, delta up to 2^256-1) and the three-square table (factor 1,
// EVERY delta in [0, limit], both signs), 1..3 statements per attribute, 1..2 attributes.
// Oracle: creation succeeds, proof verifies (also after JSON), each range proof Proves its statement.

import (
	"encoding/json"
	"fmt"
	"sync"
	"testing"

	"github.com/privacybydesign/gabi/big"
	"github.com/privacybydesign/gabi/internal/vfh"
	"github.com/privacybydesign/gabi/internal/vfk"
	"github.com/privacybydesign/gabi/rangeproof"
	"pgregory.net/rapid"
)

var (
	c13TableMu sync.Mutex
	c13Tables  = map[int64]*rangeproof.SquaresTable{}
)

func c13Table(limit int64) *rangeproof.SquaresTable {
	c13TableMu.Lock()
	defer c13TableMu.Unlock()
	if t, ok := c13Tables[limit]; ok {
		return t
	}
	t := rangeproof.GenerateSquaresTable(limit)
	c13Tables[limit] = t
	return t
}

type c13Stmt struct {
	sign   int
	factor uint
	delta  *big.Int
	limit  int64 // -1: four squares; >= 0: three-square table of that limit
	bound  *big.Int
}

func (s *c13Stmt) statement() *rangeproof.Statement {
	st := &rangeproof.Statement{Sign: s.sign, Factor: s.factor, Bound: new(big.Int).Set(s.bound)}
	if s.limit >= 0 {
		st.Splitter = c13Table(s.limit)
	}
	return st
}

func (s *c13Stmt) String() string {
	sp := "4sq"
	if s.limit >= 0 {
		sp = fmt.Sprintf("3sq(table %d)", s.limit)
	}
	op := ">="
	if s.sign == -1 {
		op = "<="
	}
	return fmt.Sprintf("%d*m %s bound [delta=%s, %s]", s.factor, op, bstr(s.delta), sp)
}

func (s *c13Stmt) class() string {
	d := "delta>=2^128"
	switch {
	case s.delta.Sign() == 0:
		d = "delta=0"
	case s.delta.BitLen() <= 6:
		d = "delta<64"
	case s.delta.BitLen() <= 128:
		d = "delta<2^128"
	}
	if s.limit >= 0 {
		if s.limit > 0 && s.delta.Cmp(bi(s.limit-s.limit/4)) >= 0 {
			d = "delta-top-quarter-of-table"
		}
		return fmt.Sprintf("3sq/sign=%+d/%s", s.sign, d)
	}
	f := "factor=1"
	if s.factor > 1 {
		f = "factor>1"
	}
	return fmt.Sprintf("4sq/sign=%+d/%s/%s", s.sign, f, d)
}

func mkStmt(m *big.Int, sign int, factor uint, delta *big.Int, limit int64) *c13Stmt {
	// sign*(factor*m - bound) = delta  =>  bound = factor*m - sign*delta
	b := new(big.Int).Mul(m, bi(int64(factor)))
	if sign == 1 {
		b.Sub(b, delta)
	} else {
		b.Add(b, delta)
	}
	return &c13Stmt{sign: sign, factor: factor, delta: delta, limit: limit, bound: b}
}

// c13Run proves the statements (index -> list) on a fresh credential and applies the oracle.
func c13Run(kp *vfk.KeyPair, attrs []*big.Int, stmts map[int][]*c13Stmt, ctx, nonce *big.Int) (sig, what string) {
	return c13RunD(kp, attrs, stmts, nil, ctx, nonce)
}

// c13RunD: as c13Run, with a set of disclosed attribute indices (attributes without statements)
func c13RunD(kp *vfk.KeyPair, attrs []*big.Int, stmts map[int][]*c13Stmt, disclose []int, ctx, nonce *big.Int) (sig, what string) {
	cred, err := issueDirect(kp, bi(987654321987), attrs)
	if err != nil {
		return "issue-error", err.Error()
	}
	rs := map[int][]*rangeproof.Statement{}
	desc := ""
	for idx, l := range stmts {
		for _, s := range l {
			rs[idx] = append(rs[idx], s.statement())
			desc += fmt.Sprintf("attr%d: %s; ", idx, s)
		}
	}
	if len(disclose) > 0 {
		desc += fmt.Sprintf("disclosed=%v of %d attributes; ", disclose, len(attrs))
	}
	var proof *ProofD
	if ps := vfh.Guard(func() { proof, err = cred.CreateDisclosureProof(disclose, rs, false, ctx, nonce) }); ps != "" {
		return ps, desc
	}
	if err != nil {
		cls := "other"
		for _, l := range stmts {
			for _, s := range l {
				cls = s.class()
			}
		}
		return "true-statement-not-provable:" + normErr(err) + ":" + clsHead(cls), desc + " err=" + err.Error()
	}
	if !proof.Verify(kp.Pk, ctx, nonce, false) {
		return "range-proof-of-true-statement-rejected", desc
	}
	js, err := json.Marshal(proof)
	if err != nil {
		return "range-proof-marshal-error", err.Error()
	}
	var back ProofD
	if err := json.Unmarshal(js, &back); err != nil {
		return "range-proof-unmarshal-error", err.Error()
	}
	if !back.Verify(kp.Pk, ctx, nonce, false) {
		return "range-proof-rejected-after-json-round-trip", desc
	}
	for idx, l := range stmts {
		if len(back.RangeProofs[idx]) != len(l) {
			return "range-proof-count-differs", desc
		}
		for i, s := range l {
			if !back.RangeProofs[idx][i].Proves(s.statement()) {
				return "range-proof-does-not-prove-requested-statement:" + clsHead(s.class()), desc
			}
		}
	}
	return "", desc
}

func clsHead(c string) string {
	// "3sq/sign=-1/..." -> "3sq/sign=-1"
	n := 0
	for i := 0; i < len(c); i++ {
		if c[i] == '/' {
			n++
			if n == 2 {
				return c[:i]
			}
		}
	}
	return c
}

func normErr(err error) string {
	s := err.Error()
	if len(s) > 40 {
		s = s[:40]
	}
	return stripDigits(s)
}

// TestVF_C13_Table: every delta of a three-square table, both signs (exhaustive in delta).
func TestVF_C13_Table(t *testing.T) {
	rec := vfh.New(t, "C13")
	defer rec.Flush()
	seedLib(t, uint64(rec.Seed()))
	limits := []int64{0, 1, 5, 255}
	if rec.Thorough() {
		limits = append(limits, 4096)
	}
	kp := getKey("toy", int(rec.Seed())%8)
	item := 0
	for _, limit := range limits {
		for delta := int64(0); delta <= limit; delta++ {
			for _, sign := range []int{1, -1} {
				item++
				if !rec.Mine(item) {
					continue
				}
				m := bi(1000000 + delta*7)
				s := mkStmt(m, sign, 1, bi(delta), limit)
				sig, what := c13Run(kp, []*big.Int{bi(5), m}, map[int][]*c13Stmt{2: {s}}, bi(1), bi(int64(item)))
				rec.Case(fmt.Sprintf("table%d/sign=%+d", limit, sign), true, fmt.Sprintf("t|%d|%d|%d", limit, delta, sign))
				rec.Class(s.class(), 1)
				if delta%64 == 0 {
					rec.Sample(func() any { return map[string]any{"key": kp.Name, "m": m.String(), "statement": s.String()} })
				}
				if sig != "" {
					rec.FailT(sig, map[string]any{"table_limit": limit, "delta": delta, "sign": sign, "what": what})
				}
			}
		}
	}
	rec.SetExhaustive(true)
}

func c13GenDelta(rt *rapid.T, label string) *big.Int {
	switch rapid.IntRange(0, 6).Draw(rt, label+"cls") {
	case 0:
		return bi(int64(rapid.IntRange(0, 64).Draw(rt, label+"small")))
	case 1:
		k := uint(rapid.IntRange(1, 255).Draw(rt, label+"k"))
		v := pow2(k)
		return v.Add(v, bi(int64(rapid.IntRange(-1, 1).Draw(rt, label+"pm"))))
	case 2: // 4^j*(8i+7): not a sum of three squares
		j := uint(rapid.IntRange(0, 60).Draw(rt, label+"j"))
		i := int64(rapid.IntRange(0, 1<<20).Draw(rt, label+"i"))
		return new(big.Int).Lsh(bi(8*i+7), 2*j)
	case 3:
		v := pow2(256)
		return v.Sub(v, bi(int64(rapid.IntRange(1, 1000).Draw(rt, label+"top"))))
	case 4: // multiples of 4 and values = 1, 3 mod 4 (all branches of the decomposition)
		b := rapid.SliceOfN(rapid.Byte(), 1, 32).Draw(rt, label+"b")
		v := new(big.Int).SetBytes(b)
		v.Lsh(v, uint(rapid.IntRange(0, 8).Draw(rt, label+"sh")))
		if v.BitLen() > 256 {
			v.Rsh(v, uint(v.BitLen()-256))
		}
		return v
	default:
		return new(big.Int).SetBytes(rapid.SliceOfN(rapid.Byte(), 1, 32).Draw(rt, label+"b"))
	}
}

// TestVF_C13_Random: four-square statements with generated differences, multiple statements
// per attribute and per proof, mixed with table statements.
func TestVF_C13_Random(t *testing.T) {
	rec := vfh.New(t, "C13")
	defer rec.Flush()
	rec.Check(func(rt *rapid.T) {
		drawLibSeed(t, rt)
		kp := drawKey(rt, false, true)
		lm := kp.Pk.Params.Lm
		nattr := rapid.IntRange(1, 2).Draw(rt, "nattr")
		attrs := []*big.Int{bi(3)}
		// attributes without statements in front, some of them disclosed: the statements then sit on
		// indices that are larger than the number of hidden attributes
		var disclose []int
		for f := rapid.IntRange(0, 4).Draw(rt, "fillers"); f > 0; f-- {
			attrs = append(attrs, bi(int64(100+f)))
			if rapid.IntRange(0, 3).Draw(rt, "discloseFiller") != 0 {
				disclose = append(disclose, len(attrs)-1)
			}
		}
		stmts := map[int][]*c13Stmt{}
		fp := kp.Name
		total := 0
		for a := 0; a < nattr; a++ {
			m, _ := genAttr(rt, fmt.Sprintf("m%d", a), lm)
			if m.BitLen() > int(lm) {
				m = new(big.Int).Rsh(m, uint(m.BitLen()-int(lm))) // range statements are about the raw value: keep m < 2^Lm
			}
			attrs = append(attrs, m)
			idx := len(attrs) - 1
			ns := rapid.IntRange(1, 3).Draw(rt, fmt.Sprintf("ns%d", a))
			for k := 0; k < ns; k++ {
				sign := rapid.SampledFrom([]int{1, -1}).Draw(rt, "sign")
				var s *c13Stmt
				if rapid.IntRange(0, 3).Draw(rt, "splitter") == 0 {
					limit := rapid.SampledFrom([]int64{0, 1, 5, 255, 4096}).Draw(rt, "limit")
					d := int64(rapid.IntRange(0, int(limit)).Draw(rt, "tdelta"))
					if rapid.Bool().Draw(rt, "edge") {
						d = rapid.SampledFrom([]int64{0, limit, limit / 4, limit/4 + 1, limit - limit/4}).Draw(rt, "tedge")
					}
					if d > limit {
						d = limit
					}
					s = mkStmt(m, sign, 1, bi(d), limit)
				} else {
					factor := uint(rapid.IntRange(1, 8).Draw(rt, "factor"))
					s = mkStmt(m, sign, factor, c13GenDelta(rt, "d"), -1)
				}
				if s.bound.Sign() <= 0 {
					// bounds travel as non-negative integers (the text encodings refuse negative
					// ones) and a three-square bound of 0 rescales to -2: use the <= form instead
					s = mkStmt(m, -1, s.factor, s.delta, s.limit)
				}
				stmts[idx] = append(stmts[idx], s)
				fp += "|" + s.String() + "|" + bstr(m)
				rec.Class(s.class(), 1)
				total++
			}
		}
		ctx := bi(int64(rapid.IntRange(1, 1<<30).Draw(rt, "ctx")))
		nonce := bi(int64(rapid.IntRange(1, 1<<30).Draw(rt, "nonce")))
		sig, what := c13RunD(kp, attrs[1:], stmts, disclose, ctx, nonce)
		maxIdx := 0
		for idx := range stmts {
			if idx > maxIdx {
				maxIdx = idx
			}
		}
		if maxIdx >= len(attrs)-len(disclose) {
			rec.Class("statement-index-above-number-of-hidden-attributes", 1)
		}
		fp += fmt.Sprintf("|D=%v/%d", disclose, len(attrs))
		rec.Case(fmt.Sprintf("random/statements=%d/bits=%d", total, kp.Bits), true, fp)
		rec.Sample(func() any { return map[string]any{"key": kp.Name, "statements": what} })
		if sig != "" {
			rec.Fail(rt, sig, map[string]any{"key": kp.Name, "what": what})
		}
	})
}
