package gabi

// C02 - Proofs verify only in the session they were made for.
// Oracle (metamorphic): the original tuple (context, nonce, flag, keys, proofs) verifies; every
// enumerated change of the tuple is rejected. Each presentation decodes the list freshly from
// its JSON form (wire realism; no verifier-side cache survives between presentations).

import (
	"encoding/json"
	"fmt"
	"testing"

	"github.com/privacybydesign/gabi/big"
	"github.com/privacybydesign/gabi/gabikeys"
	"github.com/privacybydesign/gabi/internal/vfh"
	"github.com/privacybydesign/gabi/internal/vfk"
	"github.com/privacybydesign/gabi/rangeproof"
	"pgregory.net/rapid"
)

var c02Kinds = []string{"disc", "disc+nonrev", "disc+range", "disc+nonrev+range", "issue", "issue+blind"}

type c02Member struct {
	kind string
	key  int // index into session keys
}

type c02Session struct {
	keys    []*vfk.KeyPair
	worlds  map[int]*revWorld
	members []c02Member
	secret  *big.Int
}

func (s *c02Session) world(i int) (*revWorld, error) {
	if w, ok := s.worlds[i]; ok {
		return w, nil
	}
	w, err := newRevWorld(s.keys[i])
	if err != nil {
		return nil, err
	}
	s.worlds[i] = w
	return w, nil
}

func (s *c02Session) builder(m c02Member, ctx *big.Int) (ProofBuilder, error) {
	kp := s.keys[m.key]
	switch m.kind {
	case "issue":
		return NewCredentialBuilder(kp.Pk, ctx, s.secret, bi(777), nil, nil)
	case "issue+blind":
		return NewCredentialBuilder(kp.Pk, ctx, s.secret, bi(777), nil, []int{1})
	}
	if m.kind == "disc+zero" {
		// harness-side prover with the secret-key randomiser fixed to 0 (see C08)
		cred, err := issueDirect(kp, s.secret, []*big.Int{bi(11), bi(5000), bi(33)})
		if err != nil {
			return nil, err
		}
		ab, err := newAdvBuilder(kp, cred, []int{0, 2, 3}, map[int]*big.Int{1: cred.Attributes[1]})
		if err != nil {
			return nil, err
		}
		ab.fixedSkR = bi(0)
		return ab, nil
	}
	nonrev := m.kind == "disc+nonrev" || m.kind == "disc+nonrev+range"
	withRange := m.kind == "disc+range" || m.kind == "disc+nonrev+range" || m.kind == "disc+range2"
	attrs := []*big.Int{bi(11), bi(5000), bi(33)}
	var cred *Credential
	if nonrev {
		w, err := s.world(m.key)
		if err != nil {
			return nil, err
		}
		rc, err := issueRevCred(w, s.secret, attrs)
		if err != nil {
			return nil, err
		}
		cred = rc.cred
	} else {
		var err error
		cred, err = issueDirect(kp, s.secret, attrs)
		if err != nil {
			return nil, err
		}
	}
	var stmts map[int][]*rangeproof.Statement
	if withRange {
		st, err := rangeproof.NewStatement(rangeproof.GreaterOrEqual, bi(4000))
		if err != nil {
			return nil, err
		}
		stmts = map[int][]*rangeproof.Statement{2: {st}}
		if m.kind == "disc+range2" { // two statements on the same attribute
			st2, err := rangeproof.NewStatement(rangeproof.LesserOrEqual, bi(6000))
			if err != nil {
				return nil, err
			}
			stmts[2] = append(stmts[2], st2)
		}
	}
	return cred.CreateDisclosureProofBuilder([]int{1}, stmts, nonrev)
}

func (s *c02Session) build(ctx, nonce *big.Int, issig bool) (ProofList, error) {
	var bl ProofBuilderList
	for _, m := range s.members {
		b, err := s.builder(m, ctx)
		if err != nil {
			return nil, err
		}
		bl = append(bl, b)
	}
	return bl.BuildProofList(ctx, nonce, issig)
}

func (s *c02Session) pks() []*gabikeys.PublicKey {
	out := make([]*gabikeys.PublicKey, len(s.members))
	for i, m := range s.members {
		out[i] = s.keys[m.key].Pk
	}
	return out
}

func (s *c02Session) String() string {
	out := ""
	for _, m := range s.members {
		out += fmt.Sprintf("%s@%s ", m.kind, s.keys[m.key].Name)
	}
	return out
}

func decodeList(js []byte) (ProofList, error) {
	var pl ProofList
	err := json.Unmarshal(js, &pl)
	return pl, err
}

// permutations of 0..n-1 (n <= 4)
func perms(n int) [][]int {
	var out [][]int
	p := make([]int, n)
	for i := range p {
		p[i] = i
	}
	var rec func(k int)
	rec = func(k int) {
		if k == n {
			out = append(out, append([]int{}, p...))
			return
		}
		for i := k; i < n; i++ {
			p[k], p[i] = p[i], p[k]
			rec(k + 1)
			p[k], p[i] = p[i], p[k]
		}
	}
	rec(0)
	return out
}

func isIdentity(p []int) bool {
	for i, v := range p {
		if i != v {
			return false
		}
	}
	return true
}

func intVariants(rt *rapid.T, label string, v, other *big.Int) map[string]*big.Int {
	out := map[string]*big.Int{}
	for i := uint(0); i < 16; i++ {
		out[fmt.Sprintf("flip-bit%d", i)] = new(big.Int).Xor(v, pow2(i))
	}
	top := uint(0)
	if v.BitLen() > 0 {
		top = uint(v.BitLen() - 1)
	}
	out["flip-topbit"] = new(big.Int).Xor(v, pow2(top))
	out["flip-above-top"] = new(big.Int).Xor(v, pow2(top+1))
	out["+1"] = new(big.Int).Add(v, bi(1))
	out["zero"] = bi(0)
	out["one"] = bi(1)
	out["swapped-with-other"] = new(big.Int).Set(other)
	out["random"] = new(big.Int).SetBytes(rapid.SliceOfN(rapid.Byte(), 1, 33).Draw(rt, label+"rnd"))
	out["shifted-by-8"] = new(big.Int).Lsh(v, 8)
	out["negated"] = new(big.Int).Neg(v)
	out["minus-one"] = bi(-1)
	for k, x := range out {
		if x.Cmp(v) == 0 {
			delete(out, k)
		}
	}
	return out
}

func TestVF_C02(t *testing.T) {
	rec := vfh.New(t, "C02")
	defer rec.Flush()
	rec.Check(func(rt *rapid.T) {
		drawLibSeed(t, rt)
		big1024 := rapid.IntRange(0, 9).Draw(rt, "size") == 0
		nk := rapid.IntRange(1, 3).Draw(rt, "nkeys")
		s := &c02Session{worlds: map[int]*revWorld{}, secret: genSecret(rt, "secret")}
		first := rapid.IntRange(0, 7).Draw(rt, "key0")
		for i := 0; i < nk; i++ {
			if big1024 {
				s.keys = append(s.keys, getKey("k1024rev", (first+i)%3))
			} else {
				s.keys = append(s.keys, getKey("toyrev", (first+i)%8))
			}
		}
		n := rapid.IntRange(1, 4).Draw(rt, "n")
		if big1024 && n > 2 {
			n = 2
		}
		for i := 0; i < n; i++ {
			s.members = append(s.members, c02Member{
				kind: rapid.SampledFrom(c02Kinds).Draw(rt, fmt.Sprintf("kind%d", i)),
				key:  rapid.IntRange(0, nk-1).Draw(rt, fmt.Sprintf("mkey%d", i)),
			})
		}
		ctx := new(big.Int).SetBytes(rapid.SliceOfN(rapid.Byte(), 1, 32).Draw(rt, "ctx"))
		if rapid.IntRange(0, 3).Draw(rt, "ctx1") == 0 {
			ctx = bi(1) // the context IRMA uses in practice
		}
		nonce := new(big.Int).SetBytes(rapid.SliceOfN(rapid.Byte(), 1, 16).Draw(rt, "nonce"))
		issig := rapid.Bool().Draw(rt, "issig")
		shape := fmt.Sprintf("%s|issig=%v", s.String(), issig)
		det := func(change string) map[string]any {
			return map[string]any{"session": s.String(), "issig": issig, "context": bstr(ctx), "nonce": bstr(nonce), "change": change}
		}

		pl, err := s.build(ctx, nonce, issig)
		if err != nil {
			rec.Fail(rt, "honest-list-build-error", det(err.Error()))
			return
		}
		js, err := json.Marshal(pl)
		if err != nil {
			rec.Fail(rt, "honest-list-marshal-error", det(err.Error()))
			return
		}
		pks := s.pks()

		present := func(js []byte, keys []*gabikeys.PublicKey, c, nn *big.Int, sig bool) (bool, string) {
			l, err := decodeList(js)
			if err != nil {
				return false, ""
			}
			var acc bool
			psig := vfh.Guard(func() { acc = l.Verify(keys, c, nn, sig, nil) })
			return acc, psig
		}

		acc, psig := present(js, pks, ctx, nonce, issig)
		rec.Case("original", true, "o|"+shape)
		rec.Sample(func() any { return det("none (original tuple)") })
		if psig != "" {
			rec.Fail(rt, psig, det("original"))
			return
		}
		if !acc {
			if anyC11Ambiguous(pl) {
				rec.Violation("honest-nonrev-proof-rejected:other-hidden-response-below-2^580", det("original"))
				return
			}
			rec.Fail(rt, "original-tuple-rejected", det("original"))
			return
		}

		mustReject := func(class, change string, js []byte, keys []*gabikeys.PublicKey, c, nn *big.Int, sig bool) bool {
			acc, psig := present(js, keys, c, nn, sig)
			rec.Case(class, true, "c|"+shape+"|"+class+"|"+change)
			if psig != "" {
				return rec.Fail(rt, psig+":"+class, det(class+":"+change))
			}
			if acc {
				return rec.Fail(rt, "changed-tuple-accepted:"+class, det(class+":"+change))
			}
			return true
		}

		// context / nonce / flag
		for name, v := range intVariants(rt, "ctx", ctx, nonce) {
			if !mustReject("context", name, js, pks, v, nonce, issig) {
				return
			}
		}
		for name, v := range intVariants(rt, "nonce", nonce, ctx) {
			if !mustReject("nonce", name, js, pks, ctx, v, issig) {
				return
			}
		}
		if !mustReject("flag", "flipped", js, pks, ctx, nonce, !issig) {
			return
		}
		if ctx.Cmp(nonce) != 0 {
			if !mustReject("context+nonce", "both-swapped", js, pks, nonce, ctx, issig) {
				return
			}
		}

		// ---- one decoded list verified repeatedly under a sequence of tuples: every verdict must be
		// the one a freshly decoded list gets (verification may cache derived data on the objects,
		// but the session tuple and the keys are inputs of every call)
		if !anyC11Ambiguous(pl) {
			type tup struct {
				name string
				keys []*gabikeys.PublicKey
				c, n *big.Int
				sig  bool
				want bool
			}
			clone := func(src *gabikeys.PublicKey, like *gabikeys.PublicKey) *gabikeys.PublicKey {
				k := *src
				k.R = append([]*big.Int{}, src.R...)
				k.Issuer, k.Counter = like.Issuer, like.Counter // same key identifier as the right key
				return &k
			}
			withKey0 := func(k *gabikeys.PublicKey) []*gabikeys.PublicKey {
				ks := append([]*gabikeys.PublicKey{}, pks...)
				ks[0] = k
				return ks
			}
			var other *vfk.KeyPair
			if big1024 {
				other = getKey("k1024rev", (int(pks[0].Counter)-100+1)%3)
			} else {
				other = getKey("toyrev", (int(pks[0].Counter)+1)%8)
			}
			sChanged := clone(pks[0], pks[0])
			sChanged.S = new(big.Int).Mod(new(big.Int).Mul(pks[0].S, pks[0].S), pks[0].N)
			r0Changed := clone(pks[0], pks[0])
			r0Changed.R[0] = new(big.Int).Mod(new(big.Int).Mul(pks[0].R[0], pks[0].S), pks[0].N)
			cands := []tup{
				{"original", pks, ctx, nonce, issig, true},
				{"original-with-cloned-keys", withKey0(clone(pks[0], pks[0])), ctx, nonce, issig, true},
				{"context+1", pks, new(big.Int).Add(ctx, bi(1)), nonce, issig, false},
				{"nonce+1", pks, ctx, new(big.Int).Add(nonce, bi(1)), issig, false},
				{"flag", pks, ctx, nonce, !issig, false},
				{"key0=other-key-with-the-same-identifier", withKey0(clone(other.Pk, pks[0])), ctx, nonce, issig, false},
				{"key0.S-changed", withKey0(sChanged), ctx, nonce, issig, false},
				{"key0.R0-changed", withKey0(r0Changed), ctx, nonce, issig, false},
			}
			if ctx.Sign() != 0 {
				cands = append(cands, tup{"context-negated", pks, new(big.Int).Neg(ctx), nonce, issig, false})
			}
			if nonce.Sign() != 0 {
				cands = append(cands, tup{"nonce-negated", pks, ctx, new(big.Int).Neg(nonce), issig, false})
			}
			if n >= 2 && pks[0] != pks[1] {
				sw := append([]*gabikeys.PublicKey{}, pks...)
				sw[0], sw[1] = sw[1], sw[0]
				cands = append(cands, tup{"keys-0-and-1-swapped", sw, ctx, nonce, issig, false})
			}
			l, err := decodeList(js)
			if err != nil {
				rt.Fatalf("decode: %v", err)
			}
			steps := rapid.SliceOfN(rapid.IntRange(0, len(cands)-1), 3, 6).Draw(rt, "sameObjectSteps")
			hist := ""
			for _, k := range steps {
				c := cands[k]
				hist += c.name + " -> "
				var acc bool
				psig := vfh.Guard(func() { acc = l.Verify(c.keys, c.c, c.n, c.sig, nil) })
				rec.Case("same-object-sequence/"+c.name, true, "q|"+shape+"|"+hist)
				if psig != "" {
					rec.Fail(rt, psig+":same-object-sequence", det(hist))
					return
				}
				if acc != c.want {
					if c.want {
						rec.Fail(rt, "original-tuple-rejected:after-earlier-verifications-of-the-same-object", det(hist))
					} else {
						rec.Fail(rt, "changed-tuple-accepted:after-earlier-verifications-of-the-same-object:"+c.name, det(hist))
					}
					return
				}
			}
		}

		// raw per-proof JSON for list surgery
		var raws []json.RawMessage
		if err := json.Unmarshal(js, &raws); err != nil {
			rt.Fatalf("raw split: %v", err)
		}
		join := func(idx []int) []byte {
			sel := make([]json.RawMessage, len(idx))
			for i, k := range idx {
				sel[i] = raws[k]
			}
			b, _ := json.Marshal(sel)
			return b
		}
		selKeys := func(idx []int) []*gabikeys.PublicKey {
			out := make([]*gabikeys.PublicKey, len(idx))
			for i, k := range idx {
				out[i] = pks[k]
			}
			return out
		}
		ident := make([]int, n)
		for i := range ident {
			ident[i] = i
		}
		// permutations
		for _, p := range perms(n) {
			if isIdentity(p) {
				continue
			}
			if !mustReject("permute-proofs+keys", fmt.Sprint(p), join(p), selKeys(p), ctx, nonce, issig) {
				return
			}
			if !mustReject("permute-proofs-only", fmt.Sprint(p), join(p), pks, ctx, nonce, issig) {
				return
			}
			pk2 := selKeys(p)
			same := true
			for i := range pk2 {
				if pk2[i] != pks[i] {
					same = false
				}
			}
			if !same {
				if !mustReject("permute-keys-only", fmt.Sprint(p), js, pk2, ctx, nonce, issig) {
					return
				}
			}
		}
		// proper sub-lists (every non-empty proper subset, order kept)
		for mask := 1; mask < (1<<uint(n))-1; mask++ {
			var idx []int
			for i := 0; i < n; i++ {
				if mask&(1<<uint(i)) != 0 {
					idx = append(idx, i)
				}
			}
			if !mustReject("sub-list", fmt.Sprint(idx), join(idx), selKeys(idx), ctx, nonce, issig) {
				return
			}
		}
		// empty list in all its spellings, presented directly (not via JSON)
		for name, l := range map[string]ProofList{"nil": nil, "empty-non-nil": {}, "zero-length-slice-of-valid": pl[0:0]} {
			for kname, ks := range map[string][]*gabikeys.PublicKey{"nil-keys": nil, "empty-keys": {}, "orig-keys": pks} {
				var acc bool
				psig := vfh.Guard(func() { acc = l.Verify(ks, ctx, nonce, issig, nil) })
				rec.Case("empty-list", true, "e|"+name+kname+shape)
				if psig != "" {
					rec.Fail(rt, psig+":empty-list", det(name+"/"+kname))
					return
				}
				if acc {
					rec.Fail(rt, "changed-tuple-accepted:empty-list", det(name+"/"+kname))
					return
				}
			}
		}
		// single duplication
		for i := 0; i < n; i++ {
			idx := append(append([]int{}, ident...), i)
			if !mustReject("duplicate-appended", fmt.Sprint(i), join(idx), selKeys(idx), ctx, nonce, issig) {
				return
			}
			idx2 := append(append(append([]int{}, ident[:i]...), i), ident[i:]...)
			if !mustReject("duplicate-inserted", fmt.Sprint(i), join(idx2), selKeys(idx2), ctx, nonce, issig) {
				return
			}
		}
		// key count mismatch
		if !mustReject("keys-one-fewer", "", js, pks[:n-1], ctx, nonce, issig) ||
			!mustReject("keys-one-more", "", js, append(append([]*gabikeys.PublicKey{}, pks...), pks[0]), ctx, nonce, issig) {
			return
		}
		// splice with a second session over the same builders (other nonce)
		nonce2 := new(big.Int).Add(nonce, bi(1))
		pl2, err := s.build(ctx, nonce2, issig)
		if err == nil {
			js2, _ := json.Marshal(pl2)
			var raws2 []json.RawMessage
			_ = json.Unmarshal(js2, &raws2)
			if acc2, _ := present(js2, pks, ctx, nonce2, issig); acc2 || !anyC11Ambiguous(pl2) {
				rec.Control(acc2, "second honest session rejected")
			}
			for i := 0; i < n; i++ {
				sp := append([]json.RawMessage{}, raws...)
				sp[i] = raws2[i]
				b, _ := json.Marshal(sp)
				if !mustReject("splice", fmt.Sprintf("proof%d-from-other-session", i), b, pks, ctx, nonce, issig) {
					return
				}
				// under the other session's nonce the spliced list is only a changed tuple if it
				// still contains a proof of this session (n >= 2)
				if n >= 2 && !mustReject("splice", fmt.Sprintf("proof%d-from-other-session/other-nonce", i), b, pks, ctx, nonce2, issig) {
					return
				}
			}
			// replay of the whole other session under this session's nonce
			if !mustReject("replay-other-session", "", js2, pks, ctx, nonce, issig) {
				return
			}
		}
		// key substitution
		for i := 0; i < n; i++ {
			orig := pks[i]
			var otherKp *vfk.KeyPair
			if big1024 {
				otherKp = getKey("k1024rev", (int(orig.Counter)-100+1)%3)
			} else {
				otherKp = getKey("toyrev", (int(orig.Counter)+1)%8)
			}
			sub := func(pk *gabikeys.PublicKey) []*gabikeys.PublicKey {
				ks := append([]*gabikeys.PublicKey{}, pks...)
				ks[i] = pk
				return ks
			}
			if !mustReject("key-substituted", fmt.Sprintf("pos%d-other-key", i), js, sub(otherKp.Pk), ctx, nonce, issig) {
				return
			}
			mod := func(f func(k *gabikeys.PublicKey)) *gabikeys.PublicKey {
				k := *orig
				k.R = append([]*big.Int{}, orig.R...)
				f(&k)
				return &k
			}
			elems := map[string]*gabikeys.PublicKey{
				"S*S":  mod(func(k *gabikeys.PublicKey) { k.S = new(big.Int).Mod(new(big.Int).Mul(orig.S, orig.S), orig.N) }),
				"Z*S":  mod(func(k *gabikeys.PublicKey) { k.Z = new(big.Int).Mod(new(big.Int).Mul(orig.Z, orig.S), orig.N) }),
				"R0*S": mod(func(k *gabikeys.PublicKey) { k.R[0] = new(big.Int).Mod(new(big.Int).Mul(orig.R[0], orig.S), orig.N) }),
				"N+2":  mod(func(k *gabikeys.PublicKey) { k.N = new(big.Int).Add(orig.N, bi(2)) }),
			}
			if s.members[i].kind == "issue" || s.members[i].kind == "issue+blind" {
				delete(elems, "Z*S") // an issuance commitment proof does not involve Z
			}
			for name, k := range elems {
				if !mustReject("key-element-changed", fmt.Sprintf("pos%d-%s", i, name), js, sub(k), ctx, nonce, issig) {
					return
				}
			}
		}
		// single-proof entry points
		if n == 1 {
			l, _ := decodeList(js)
			switch p := l[0].(type) {
			case *ProofD:
				check := func(change string, c, nn *big.Int, sig bool, want bool) bool {
					l2, _ := decodeList(js)
					var acc bool
					psig := vfh.Guard(func() { acc = l2[0].(*ProofD).Verify(pks[0], c, nn, sig) })
					rec.Case("ProofD.Verify/"+change, true, "pd|"+shape+change)
					if psig != "" {
						return rec.Fail(rt, psig, det("ProofD.Verify "+change))
					}
					if acc != want {
						return rec.Fail(rt, fmt.Sprintf("ProofD.Verify-%s-verdict-%v", change, acc), det("ProofD.Verify "+change))
					}
					return true
				}
				_ = p
				if !check("original", ctx, nonce, issig, true) || !check("flag", ctx, nonce, !issig, false) ||
					!check("context+1", new(big.Int).Add(ctx, bi(1)), nonce, issig, false) ||
					!check("nonce+1", ctx, new(big.Int).Add(nonce, bi(1)), issig, false) {
					return
				}
				if ctx.Sign() != 0 {
					if !check("context=0", bi(0), nonce, issig, false) {
						return
					}
				}
			case *ProofU:
				check := func(change string, c, nn *big.Int, want bool) bool {
					l2, _ := decodeList(js)
					var acc bool
					psig := vfh.Guard(func() { acc = l2[0].(*ProofU).Verify(pks[0], c, nn) })
					rec.Case("ProofU.Verify/"+change, true, "pu|"+shape+change)
					if psig != "" {
						return rec.Fail(rt, psig, det("ProofU.Verify "+change))
					}
					if acc != want {
						return rec.Fail(rt, fmt.Sprintf("ProofU.Verify-%s-verdict-%v", change, acc), det("ProofU.Verify "+change))
					}
					return true
				}
				// ProofU.Verify is a disclosure-session (issig=false) entry point
				if !check("original", ctx, nonce, !issig) ||
					!check("context+1", new(big.Int).Add(ctx, bi(1)), nonce, false) ||
					!check("nonce+1", ctx, new(big.Int).Add(nonce, bi(1)), false) {
					return
				}
			}
		}
	})
}
