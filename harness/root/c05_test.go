package gabi

// C05 - CL signatures: valid ones verify, invalid ones never do.
// Oracle: construction knowledge. The harness forges signatures with the private key so that
// Z = A^e * R(ms) * S^v [* P] holds exactly, for exponents e of known class (prime / composite,
// inside / outside the interval). Verify must accept exactly the class "prime inside".

import (
	"fmt"
	"sync"
	"testing"

	"github.com/privacybydesign/gabi/big"
	"github.com/privacybydesign/gabi/gabikeys"
	"github.com/privacybydesign/gabi/internal/vfh"
	"github.com/privacybydesign/gabi/internal/vfk"
	"pgregory.net/rapid"
)

// forgeSig returns A with A^e = Z / (S^v * R(exps) * extra) mod N, or nil if e has no inverse.
func forgeSig(kp *vfk.KeyPair, exps []*big.Int, e, v, extra *big.Int) *CLSignature {
	pk := kp.Pk
	num := new(big.Int).Exp(pk.S, v, pk.N)
	for i, x := range exps {
		num.Mul(num, new(big.Int).Exp(pk.R[i], x, pk.N)).Mod(num, pk.N)
	}
	if extra != nil {
		num.Mul(num, extra).Mod(num, pk.N)
	}
	inv := new(big.Int).ModInverse(num, pk.N)
	if inv == nil {
		return nil
	}
	q := inv.Mul(inv, pk.Z).Mod(inv, pk.N)
	d := new(big.Int).ModInverse(new(big.Int).Mod(e, kp.Sk.Order), kp.Sk.Order)
	if d == nil {
		return nil
	}
	return &CLSignature{A: new(big.Int).Exp(q, d, pk.N), E: new(big.Int).Set(e), V: new(big.Int).Set(v)}
}

func nextPrime(x *big.Int, dir int64) *big.Int {
	p := new(big.Int).Set(x)
	if p.Bit(0) == 0 {
		p.Add(p, bi(dir))
	}
	for !p.ProbablyPrime(32) {
		p.Add(p, bi(2*dir))
	}
	return p
}

type eBounds struct{ start, end, firstIn, lastIn, belowStart, aboveEnd *big.Int }

var (
	eBoundsMu    sync.Mutex
	eBoundsCache = map[string]*eBounds{}
)

func getEBounds(p *gabikeys.SystemParameters) *eBounds {
	eBoundsMu.Lock()
	defer eBoundsMu.Unlock()
	key := fmt.Sprintf("%d/%d", p.Le, p.LePrime)
	if b, ok := eBoundsCache[key]; ok {
		return b
	}
	b := &eBounds{}
	b.start = pow2(p.Le - 1)
	b.end = new(big.Int).Add(b.start, pow2(p.LePrime-1))
	b.firstIn = nextPrime(b.start, 1)
	b.lastIn = nextPrime(b.end, -1)
	b.belowStart = nextPrime(new(big.Int).Sub(b.start, bi(1)), -1)
	b.aboveEnd = nextPrime(new(big.Int).Add(b.end, bi(1)), 1)
	eBoundsCache[key] = b
	return b
}

type eCand struct {
	e      *big.Int
	class  string
	accept bool
}

func c05Candidates(rt *rapid.T, p *gabikeys.SystemParameters) []eCand {
	b := getEBounds(p)
	cands := []eCand{
		{b.firstIn, "prime-first-inside", true},
		{b.lastIn, "prime-last-inside", true},
		{b.belowStart, "prime-just-below", false},
		{b.aboveEnd, "prime-just-above", false},
		{b.start, "even-at-start", false},
		{new(big.Int).Add(b.start, bi(1)), "start+1", false}, // 2^k+1 with k=596 or 644: composite (k not a power of 2)
	}
	// random prime inside
	off := new(big.Int).SetBytes(rapid.SliceOfN(rapid.Byte(), 14, 14).Draw(rt, "eoff")) // < 2^112 < 2^119
	cands = append(cands, eCand{nextPrime(new(big.Int).Add(b.start, off), 1), "prime-random-inside", true})
	// small primes and primes of other sizes
	sp := rapid.SampledFrom([]int64{3, 5, 7, 17, 257, 65537}).Draw(rt, "smallp")
	cands = append(cands, eCand{bi(sp), "small-prime", false})
	k := uint(rapid.IntRange(64, int(p.Le)-3).Draw(rt, "pbits"))
	cands = append(cands, eCand{nextPrime(pow2(k), 1), "prime-other-size-low", false})
	cands = append(cands, eCand{nextPrime(pow2(p.Le+uint(rapid.IntRange(0, 8).Draw(rt, "hb"))), 1), "prime-other-size-high", false})
	// composite inside the interval: p1 * p2 with p1 < 2^100
	var p1 *big.Int
	switch rapid.IntRange(0, 3).Draw(rt, "p1cls") {
	case 0:
		p1 = bi(rapid.SampledFrom([]int64{3, 5, 7, 11, 65537}).Draw(rt, "p1s"))
	case 1:
		p1 = nextPrime(new(big.Int).SetBytes(rapid.SliceOfN(rapid.Byte(), 6, 6).Draw(rt, "p1b")), 1)
	default:
		p1 = nextPrime(new(big.Int).SetBytes(rapid.SliceOfN(rapid.Byte(), 11, 12).Draw(rt, "p1b")), 1)
	}
	if p1.Cmp(bi(3)) >= 0 {
		q := new(big.Int).Add(b.start, off)
		q.Div(q, p1).Add(q, bi(1))
		p2 := nextPrime(q, 1)
		prod := new(big.Int).Mul(p1, p2)
		if prod.Cmp(b.start) >= 0 && prod.Cmp(b.end) <= 0 {
			cands = append(cands, eCand{prod, "composite-inside(p1*p2)", false})
		}
		// prime times small factor, inside: e = 3*p2' etc. covered by p1 small; also square-free triple
		p3 := nextPrime(new(big.Int).Div(q, bi(5)), 1)
		prod3 := new(big.Int).Mul(new(big.Int).Mul(p1, bi(5)), p3)
		if prod3.Cmp(b.start) >= 0 && prod3.Cmp(b.end) <= 0 {
			cands = append(cands, eCand{prod3, "composite-inside(5*p1*p3)", false})
		}
	}
	return cands
}

func TestVF_C05(t *testing.T) {
	rec := vfh.New(t, "C05")
	defer rec.Flush()
	rec.Check(func(rt *rapid.T) {
		drawLibSeed(t, rt)
		kp := drawKey(rt, false, true)
		pk := kp.Pk
		n := rapid.IntRange(0, len(pk.R)).Draw(rt, "n") // 0: the empty block
		ms := make([]*big.Int, n)
		exps := make([]*big.Int, n)
		classes := make([]string, n)
		boundary := false
		for i := range ms {
			ms[i], classes[i] = genAttr(rt, fmt.Sprintf("m%d", i), pk.Params.Lm)
			exps[i] = expOf(ms[i], pk.Params.Lm)
			if ms[i].BitLen() >= int(pk.Params.Lm) {
				boundary = true
			}
		}
		detail := func(extra map[string]any) map[string]any {
			d := map[string]any{"key": kp.Name, "ms": fmt.Sprint(ms), "classes": classes}
			for k, v := range extra {
				d[k] = v
			}
			return d
		}
		bounds := getEBounds(pk.Params)

		// --- honest signature, verification, repeated randomisation
		sig, err := SignMessageBlock(kp.Sk, pk, ms)
		rec.Case("honest/"+fmt.Sprintf("bits=%d", kp.Bits), boundary, fmt.Sprintf("h|%s|%v", kp.Name, classes))
		rec.Sample(func() any { return detail(map[string]any{"kind": "honest"}) })
		if err != nil {
			rec.Fail(rt, "honest-sign-error", detail(map[string]any{"err": err.Error()}))
			return
		}
		if !sig.Verify(pk, ms) {
			rec.Fail(rt, "honest-signature-rejected", detail(nil))
			return
		}
		if sig.E.Cmp(bounds.start) < 0 || sig.E.Cmp(bounds.end) > 0 || !sig.E.ProbablyPrime(32) {
			rec.Fail(rt, "issuer-e-outside-interval-or-composite", detail(map[string]any{"e": sig.E.String()}))
			return
		}
		// the harness signer's equation must agree with the library's (control for the forger)
		if ctl := forgeSig(kp, exps, sig.E, sig.V, nil); ctl == nil || ctl.A.Cmp(sig.A) != 0 {
			rec.Control(false, "forger does not reproduce the issuer's A")
			return
		}
		rec.Control(true, "")
		cur := sig
		seenA := map[string]bool{sig.A.String(): true}
		nr := rapid.IntRange(1, 5).Draw(rt, "nrand")
		for i := 0; i < nr; i++ {
			r, err := cur.Randomize(pk)
			if err != nil {
				rec.Fail(rt, "randomize-error", detail(map[string]any{"err": err.Error()}))
				return
			}
			rec.Case("randomized", true, fmt.Sprintf("r|%s|%v|%d", kp.Name, classes, i))
			if !r.Verify(pk, ms) {
				rec.Fail(rt, "randomized-signature-rejected", detail(map[string]any{"round": i}))
				return
			}
			if !r.Verify(pk, ms) {
				rec.Fail(rt, "randomized-signature-rejected:second-verification-of-the-same-object", detail(map[string]any{"round": i, "v_negative": r.V.Sign() < 0}))
				return
			}
			if seenA[r.A.String()] {
				rec.Fail(rt, "randomize-repeats-A", detail(map[string]any{"round": i}))
				return
			}
			if r.E.Cmp(sig.E) != 0 {
				rec.Fail(rt, "randomize-changes-e", detail(nil))
				return
			}
			seenA[r.A.String()] = true
			cur = r
		}

		// --- equation-valid signatures over every exponent class
		v := new(big.Int).Add(pow2(pk.Params.Lv-1), new(big.Int).SetBytes(rapid.SliceOfN(rapid.Byte(), 8, 8).Draw(rt, "voff")))
		for _, c := range c05Candidates(rt, pk.Params) {
			f := forgeSig(kp, exps, c.e, v, nil)
			if f == nil {
				continue
			}
			rec.Case("forged/"+c.class, true, fmt.Sprintf("f|%s|%v|%s|%s", kp.Name, classes, c.class, c.e.String()))
			got := f.Verify(pk, ms)
			if got != c.accept {
				rec.Fail(rt, fmt.Sprintf("equation-valid-signature-%s-verdict-%v", c.class, got), detail(map[string]any{"e": c.e.String(), "class": c.class}))
				return
			}
		}

		// --- keyshare contribution
		ks := genSecret(rt, "kss")
		P := new(big.Int).Exp(pk.R[0], ks, pk.N)
		fk := forgeSig(kp, exps, sig.E, sig.V, P)
		fk.KeyshareP = P
		rec.Case("keyshareP/valid", true, fmt.Sprintf("k|%s|%v", kp.Name, classes))
		if !fk.Verify(pk, ms) {
			rec.Fail(rt, "valid-signature-with-keyshareP-rejected", detail(nil))
			return
		}
		reject := func(what string, s *CLSignature, k *gabikeys.PublicKey, block []*big.Int) bool {
			rec.Case("altered/"+what, true, fmt.Sprintf("a|%s|%v|%s", kp.Name, classes, what))
			if s.Verify(k, block) {
				rec.Fail(rt, "altered-signature-accepted:"+what, detail(map[string]any{"alteration": what}))
				return false
			}
			return true
		}
		noP := &CLSignature{A: fk.A, E: fk.E, V: fk.V}
		otherP := &CLSignature{A: fk.A, E: fk.E, V: fk.V, KeyshareP: new(big.Int).Exp(pk.R[0], new(big.Int).Add(ks, bi(1)), pk.N)}
		addP := &CLSignature{A: sig.A, E: sig.E, V: sig.V, KeyshareP: P}
		if !reject("keyshareP-missing", noP, pk, ms) || !reject("keyshareP-other", otherP, pk, ms) || !reject("keyshareP-added", addP, pk, ms) {
			return
		}

		// --- single-component alterations of the honest signature
		alt := func(f func(s *CLSignature)) *CLSignature {
			s := &CLSignature{A: new(big.Int).Set(sig.A), E: new(big.Int).Set(sig.E), V: new(big.Int).Set(sig.V)}
			f(s)
			return s
		}
		if !reject("A+1", alt(func(s *CLSignature) { s.A.Add(s.A, bi(1)) }), pk, ms) ||
			!reject("A*S", alt(func(s *CLSignature) { s.A.Mul(s.A, pk.S).Mod(s.A, pk.N) }), pk, ms) ||
			!reject("N-A", alt(func(s *CLSignature) { s.A.Sub(pk.N, s.A) }), pk, ms) ||
			!reject("V+1", alt(func(s *CLSignature) { s.V.Add(s.V, bi(1)) }), pk, ms) ||
			!reject("V-1", alt(func(s *CLSignature) { s.V.Sub(s.V, bi(1)) }), pk, ms) ||
			!reject("E-other-prime", alt(func(s *CLSignature) {
				if s.E.Cmp(bounds.firstIn) == 0 {
					s.E.Set(bounds.lastIn)
				} else {
					s.E.Set(bounds.firstIn)
				}
			}), pk, ms) {
			return
		}
		// --- after all of the above, the verdicts on the same objects are what they were (verification
		// must not change the signature, the key, or anything shared between calls)
		rec.Case("history/re-verification", true, fmt.Sprintf("hv|%s|%v", kp.Name, classes))
		if !sig.Verify(pk, ms) || !cur.Verify(pk, ms) {
			rec.Fail(rt, "honest-signature-rejected:after-earlier-verifications", detail(nil))
			return
		}
		if !fk.Verify(pk, ms) {
			rec.Fail(rt, "valid-signature-with-keyshareP-rejected:after-earlier-verifications", detail(nil))
			return
		}
		if noP.Verify(pk, ms) || otherP.Verify(pk, ms) || addP.Verify(pk, ms) {
			rec.Fail(rt, "altered-signature-accepted:keyshareP:after-earlier-verifications", detail(nil))
			return
		}
		if n == 0 {
			// the empty block: appended messages and key changes only
			if !reject("message-appended", sig, pk, []*big.Int{bi(int64(rapid.IntRange(1, 1000).Draw(rt, "app0")))}) {
				return
			}
			rec.Case("equivalent/zero-appended", true, fmt.Sprintf("z|%s|%v", kp.Name, classes))
			if !sig.Verify(pk, []*big.Int{bi(0)}) {
				rec.Fail(rt, "equivalent-block-rejected:zero-appended", detail(nil))
			}
			return
		}
		// other message blocks (different exponent vectors)
		i := rapid.IntRange(0, n-1).Draw(rt, "mi")
		chg := append([]*big.Int{}, ms...)
		chg[i] = new(big.Int).Add(exps[i], bi(1)) // exponent+1 stays <= 2^Lm-1+1; compare exponent to be sure
		if expOf(chg[i], pk.Params.Lm).Cmp(exps[i]) != 0 {
			if !reject("message+1", sig, pk, chg) {
				return
			}
		}
		if exps[i].Sign() > 0 {
			chg2 := append([]*big.Int{}, ms...)
			chg2[i] = new(big.Int).Sub(exps[i], bi(1))
			if !reject("message-1", sig, pk, chg2) {
				return
			}
		}
		j := rapid.IntRange(0, n-1).Draw(rt, "mj")
		if exps[i].Cmp(exps[j]) != 0 {
			sw := append([]*big.Int{}, ms...)
			sw[i], sw[j] = sw[j], sw[i]
			if !reject("messages-swapped", sig, pk, sw) {
				return
			}
		}
		if n < len(pk.R) {
			app := append(append([]*big.Int{}, ms...), bi(int64(rapid.IntRange(1, 1000).Draw(rt, "app"))))
			if !reject("message-appended", sig, pk, app) {
				return
			}
			// appending zero messages does not change the exponent vector: must still verify
			appz := append(append([]*big.Int{}, ms...), bi(0))
			rec.Case("equivalent/zero-appended", true, fmt.Sprintf("z|%s|%v", kp.Name, classes))
			if !sig.Verify(pk, appz) {
				rec.Fail(rt, "equivalent-block-rejected:zero-appended", detail(nil))
				return
			}
		}
		if n > 1 && exps[n-1].Sign() != 0 {
			if !reject("message-removed", sig, pk, ms[:n-1]) {
				return
			}
		}
		// an oversized message and its hash are the same signed exponent
		if ms[i].BitLen() > int(pk.Params.Lm) {
			hs := append([]*big.Int{}, ms...)
			hs[i] = exps[i]
			rec.Case("equivalent/hash-of-oversized", true, fmt.Sprintf("hz|%s|%v", kp.Name, classes))
			if !sig.Verify(pk, hs) {
				rec.Fail(rt, "equivalent-block-rejected:hash-of-oversized", detail(nil))
				return
			}
		}
		// other public key: same size other modulus, and same modulus with one used base changed
		var other *vfk.KeyPair
		if kp.Bits <= 320 {
			other = getKey("toy", (int(kp.Sk.Counter)+1)%8)
		} else if kp.Bits == 1024 {
			other = getKey("k1024", (int(kp.Sk.Counter)-100+1)%3)
		}
		if other != nil {
			if !reject("other-public-key", sig, other.Pk, ms) {
				return
			}
		}
		if exps[i].Sign() != 0 {
			pk2 := *pk
			pk2.R = append([]*big.Int{}, pk.R...)
			pk2.R[i] = new(big.Int).Mul(pk.R[i], pk.S)
			pk2.R[i].Mod(pk2.R[i], pk.N)
			if !reject("base-changed", sig, &pk2, ms) {
				return
			}
		}
		pk3 := *pk
		pk3.Z = new(big.Int).Mul(pk.Z, pk.S)
		pk3.Z.Mod(pk3.Z, pk.N)
		if !reject("Z-changed", sig, &pk3, ms) {
			return
		}
		return
	})
}
