package gabi

// Shared fixtures and generators of the /verif harness for package gabi.

import (
	"crypto/sha256"
	"encoding/binary"
	"fmt"
	gobig "math/big"
	"sort"
	"sync"
	"testing"
	"testing/cryptotest"

	"github.com/privacybydesign/gabi/big"
	"github.com/privacybydesign/gabi/gabikeys"
	"github.com/privacybydesign/gabi/internal/common"
	"github.com/privacybydesign/gabi/internal/vfk"
	"github.com/privacybydesign/gabi/revocation"
	"github.com/sirupsen/logrus"
	"pgregory.net/rapid"
)

func init() {
	Logger.SetLevel(logrus.FatalLevel)
}

// seedLib makes every source of library randomness a function of seed.
func seedLib(t *testing.T, seed uint64) {
	cryptotest.SetGlobalRandom(t, seed)
	var s [32]byte
	binary.LittleEndian.PutUint64(s[:8], seed)
	h := sha256.Sum256(s[:])
	common.VfReseedCPRNG(&h)
}

func drawLibSeed(t *testing.T, rt *rapid.T) uint64 {
	s := rapid.Uint64().Draw(rt, "libSeed")
	seedLib(t, s)
	return s
}

const vfNBases = 9 // R_0..R_8: secret + up to 8 attributes

var (
	keyMu    sync.Mutex
	keyCache = map[string]*vfk.KeyPair{}
)

// getKey returns a cached key: kind "toy<i>", "toyrev<i>", "k1024-<i>", "k1024rev-<i>", "k2048", "k2048rev".
func getKey(kind string, i int) *vfk.KeyPair {
	keyMu.Lock()
	defer keyMu.Unlock()
	name := fmt.Sprintf("%s/%d", kind, i)
	if k, ok := keyCache[name]; ok {
		return k
	}
	var k *vfk.KeyPair
	switch kind {
	case "toy":
		k = vfk.Toy(i, vfNBases, false)
	case "toyrev":
		k = vfk.Toy(i, vfNBases, true)
	case "k1024":
		k = vfk.K1024(i, vfNBases, false)
	case "k1024rev":
		k = vfk.K1024(i, vfNBases, true)
	case "k2048":
		k = vfk.K2048(vfNBases, false)
	case "k2048rev":
		k = vfk.K2048(vfNBases, true)
	default:
		panic("unknown key kind " + kind)
	}
	k.Name = name
	k.Pk.Issuer = name
	keyCache[name] = k
	return k
}

// drawKey picks a key; toy keys dominate (cheap), real sizes are sampled.
func drawKey(rt *rapid.T, rev bool, allowBig bool) *vfk.KeyPair {
	suffix := ""
	if rev {
		suffix = "rev"
	}
	w := rapid.IntRange(0, 99).Draw(rt, "keyw")
	switch {
	case allowBig && w >= 99:
		return getKey("k2048"+suffix, 0)
	case allowBig && w >= 88:
		return getKey("k1024"+suffix, rapid.IntRange(0, 2).Draw(rt, "keyi"))
	default:
		return getKey("toy"+suffix, rapid.IntRange(0, 7).Draw(rt, "keyi"))
	}
}

func bi(x int64) *big.Int { return big.NewInt(x) }

func pow2(k uint) *big.Int { return new(big.Int).Lsh(big.NewInt(1), k) }

// expOf is the harness's own definition of the exponent the issuer signs for a message.
func expOf(v *big.Int, lm uint) *big.Int {
	if v.BitLen() > int(lm) {
		h := sha256.Sum256(v.Go().Bytes())
		return big.Convert(new(gobig.Int).SetBytes(h[:]))
	}
	return new(big.Int).Set(v)
}

// genAttr draws an attribute value from boundary classes. distinctive values are random
// 64..255-bit integers (usable for leak scans).
func genAttr(rt *rapid.T, label string, lm uint) (*big.Int, string) {
	cls := rapid.IntRange(0, 13).Draw(rt, label+"cls")
	switch cls {
	case 0:
		return bi(0), "0"
	case 1:
		return bi(1), "1"
	case 2:
		return bi(int64(rapid.IntRange(2, 1<<20).Draw(rt, label+"v"))), "small"
	case 3:
		k := uint(rapid.IntRange(1, int(lm)-1).Draw(rt, label+"k"))
		v := pow2(k)
		d := rapid.IntRange(-1, 1).Draw(rt, label+"d")
		return v.Add(v, bi(int64(d))), "2^k+-1"
	case 4:
		v := pow2(lm)
		return v.Sub(v, bi(1)), "2^Lm-1"
	case 5:
		return pow2(lm), "2^Lm"
	case 6:
		v := pow2(lm)
		return v.Add(v, bi(1)), "2^Lm+1"
	case 7:
		b := rapid.SliceOfN(rapid.Byte(), int(lm/8)+1, int(lm/8)+2).Draw(rt, label+"b")
		b[0] |= 1
		return new(big.Int).SetBytes(b), "~2^(Lm+8)"
	case 8:
		n := rapid.IntRange(125, 500).Draw(rt, label+"n")
		b := rapid.SliceOfN(rapid.Byte(), n, n).Draw(rt, label+"b")
		b[0] |= 0x80
		return new(big.Int).SetBytes(b), "huge"
	case 9, 10:
		b := rapid.SliceOfN(rapid.Byte(), 1, int(lm/8)).Draw(rt, label+"b")
		return new(big.Int).SetBytes(b), "random<=Lm"
	default:
		n := rapid.IntRange(8, int(lm/8)-1).Draw(rt, label+"n")
		b := rapid.SliceOfN(rapid.Byte(), n, n).Draw(rt, label+"b")
		b[0] |= 0x80
		return new(big.Int).SetBytes(b), "distinctive"
	}
}

func genSecret(rt *rapid.T, label string) *big.Int {
	b := rapid.SliceOfN(rapid.Byte(), 31, 31).Draw(rt, label) // < 2^248 < 2^(Lm-1)
	b[0] |= 0x40
	return new(big.Int).SetBytes(b)
}

// issueDirect builds a credential by signing (secret, attrs...) directly with the issuer key.
func issueDirect(kp *vfk.KeyPair, secret *big.Int, attrs []*big.Int) (*Credential, error) {
	ms := append([]*big.Int{secret}, attrs...)
	sig, err := SignMessageBlock(kp.Sk, kp.Pk, ms)
	if err != nil {
		return nil, err
	}
	return &Credential{Signature: sig, Pk: kp.Pk, Attributes: ms}, nil
}

// revocation world for one key: accumulator history kept by the harness (it plays issuer).
type revWorld struct {
	kp     *vfk.KeyPair
	acc    *revocation.Accumulator
	sacc   *revocation.SignedAccumulator
	events []*revocation.Event // all events, index 0..n

	byIndex      map[uint64]*revocation.Accumulator
	saccsByIndex map[uint64]*revocation.SignedAccumulator
}

func (w *revWorld) record() {
	if w.byIndex == nil {
		w.byIndex = map[uint64]*revocation.Accumulator{}
		w.saccsByIndex = map[uint64]*revocation.SignedAccumulator{}
	}
	w.byIndex[w.acc.Index] = w.acc
	w.saccsByIndex[w.acc.Index] = w.sacc
}

func (w *revWorld) accAt(i uint64) *revocation.Accumulator { return w.byIndex[i] }

func newRevWorld(kp *vfk.KeyPair) (*revWorld, error) {
	upd, err := revocation.NewAccumulator(kp.Sk)
	if err != nil {
		return nil, err
	}
	acc, err := upd.SignedAccumulator.UnmarshalVerify(kp.Pk)
	if err != nil {
		return nil, err
	}
	w := &revWorld{kp: kp, acc: acc, sacc: upd.SignedAccumulator, events: upd.Events}
	w.record()
	return w, nil
}

func (w *revWorld) newWitness() (*revocation.Witness, error) {
	wit, err := revocation.RandomWitness(w.kp.Sk, w.acc)
	if err != nil {
		return nil, err
	}
	wit.SignedAccumulator = w.sacc
	return wit, nil
}

// revoke removes e from the accumulator and returns the one-event update (fresh object).
func (w *revWorld) revoke(e *big.Int) (*revocation.Update, error) {
	acc, ev, err := w.acc.Remove(w.kp.Sk, e, w.events[len(w.events)-1])
	if err != nil {
		return nil, err
	}
	upd, err := revocation.NewUpdate(w.kp.Sk, acc, []*revocation.Event{ev})
	if err != nil {
		return nil, err
	}
	w.acc = acc
	w.sacc = upd.SignedAccumulator
	w.events = append(w.events, ev)
	w.record()
	return upd, nil
}

// updateFrom returns a fresh update object with events [from..latest].
func (w *revWorld) updateFrom(from uint64) (*revocation.Update, error) {
	evs := append([]*revocation.Event{}, w.events[from:]...)
	return revocation.NewUpdate(w.kp.Sk, w.acc, evs)
}

func sortedKeys[V any](m map[int]V) []int {
	ks := make([]int, 0, len(m))
	for k := range m {
		ks = append(ks, k)
	}
	sort.Ints(ks)
	return ks
}

func bstr(v *big.Int) string {
	if v == nil {
		return "nil"
	}
	s := v.String()
	if len(s) > 48 {
		return fmt.Sprintf("%s..(%d bits)", s[:24], v.BitLen())
	}
	return s
}

func keys1(kp *vfk.KeyPair) []*gabikeys.PublicKey { return []*gabikeys.PublicKey{kp.Pk} }

// copyProofD makes a deep copy of the wire-visible part of a ProofD (range/nonrev parts shallow
// unless needed by the caller).
func copyProofD(p *ProofD) *ProofD {
	q := &ProofD{
		C: new(big.Int).Set(p.C), A: new(big.Int).Set(p.A),
		EResponse: new(big.Int).Set(p.EResponse), VResponse: new(big.Int).Set(p.VResponse),
		AResponses: map[int]*big.Int{}, ADisclosed: map[int]*big.Int{},
		NonRevocationProof: p.NonRevocationProof, RangeProofs: p.RangeProofs,
	}
	for k, v := range p.AResponses {
		q.AResponses[k] = new(big.Int).Set(v)
	}
	for k, v := range p.ADisclosed {
		q.ADisclosed[k] = new(big.Int).Set(v)
	}
	return q
}

// ---- credentials with a non-revocation witness

type revCred struct {
	cred   *Credential
	world  *revWorld
	revIdx int
}

// issueRevCred issues (secret, attrs..., witness.E) directly; the witness value is the last attribute.
func issueRevCred(w *revWorld, secret *big.Int, attrs []*big.Int) (*revCred, error) {
	wit, err := w.newWitness()
	if err != nil {
		return nil, err
	}
	all := append(append([]*big.Int{}, attrs...), wit.E)
	cred, err := issueDirect(w.kp, secret, all)
	if err != nil {
		return nil, err
	}
	cred.NonRevocationWitness = wit
	return &revCred{cred: cred, world: w, revIdx: len(all)}, nil
}

// c11Ambiguous reports whether an honest proof with a non-revocation part falls into the
// known-finding input class of C11: besides the revocation attribute another hidden response
// is below 2^(AttributeSize+ChallengeLength+ZkStat+1), so the verifier's choice of the
// revocation attribute depends on map iteration order.
func c11Ambiguous(p *ProofD) bool {
	if p == nil || p.NonRevocationProof == nil {
		return false
	}
	lim := pow2(revocation.Parameters.AttributeSize + revocation.Parameters.ChallengeLength + revocation.Parameters.ZkStat + 1)
	n := 0
	for _, r := range p.AResponses {
		if r != nil && r.Cmp(lim) < 0 {
			n++
		}
	}
	return n >= 2
}

func anyC11Ambiguous(pl ProofList) bool {
	for _, p := range pl {
		if d, ok := p.(*ProofD); ok && c11Ambiguous(d) {
			return true
		}
	}
	return false
}

// ---- keyshare protocol driver (the exchange exactly as the API prescribes)

type kssRun struct {
	keys        map[string]*gabikeys.PublicKey // keys known to the keyshare server (by Issuer name)
	kssSecret   *big.Int
	userRandom  *big.Int
	commRequest KeyshareCommitmentRequest
	hashInput   []KeyshareUserChallengeInput[string]
	kssRandom   *big.Int
	kssComm     []*ProofPCommitment
	respRequest KeyshareResponseRequest[string]
	challenge   *big.Int
	proofP      *ProofP
	labels      []string
	keysSlice   []*gabikeys.PublicKey
	partic      []bool

	challengeMatch bool
	userChallenge  *big.Int
}

// kssPrepare runs steps 1-4 (everything before the server's response).
func kssPrepare(builders ProofBuilderList, keys map[string]*gabikeys.PublicKey, kssSecret, ctx, nonce *big.Int, issig bool) (*kssRun, error) {
	r := &kssRun{keys: keys, kssSecret: kssSecret}
	for _, b := range builders {
		r.keysSlice = append(r.keysSlice, b.PublicKey())
		_, in := keys[b.PublicKey().Issuer]
		r.partic = append(r.partic, in)
		if in {
			r.labels = append(r.labels, "keyshare server")
		} else {
			r.labels = append(r.labels, "")
		}
	}
	var err error
	if r.userRandom, err = common.RandomBigInt(gabikeys.DefaultSystemParameters[1024].LmCommit); err != nil {
		return nil, err
	}
	randomizers := map[string]*big.Int{"secretkey": r.userRandom}
	if r.commRequest, r.hashInput, err = KeyshareUserCommitmentRequest(builders, randomizers, keys); err != nil {
		return nil, err
	}
	if r.kssRandom, r.kssComm, err = NewKeyshareCommitments(kssSecret, r.keysSlice); err != nil {
		return nil, err
	}
	for i, b := range builders {
		if r.partic[i] {
			b.SetProofPCommitment(r.kssComm[i])
		}
	}
	if r.respRequest, r.challenge, err = KeyshareUserResponseRequest(builders, randomizers, r.hashInput, ctx, nonce, issig); err != nil {
		return nil, err
	}
	return r, nil
}

// kssFinish runs the server's response and builds the joint proof list.
func (r *kssRun) kssFinish(builders ProofBuilderList) (ProofList, error) {
	var err error
	if r.proofP, err = KeyshareResponse(r.kssSecret, r.kssRandom, r.commRequest, r.respRequest, r.keys); err != nil {
		return nil, err
	}
	// compare now: merging ProofP into the proofs overwrites the (shared) challenge object in place
	r.challengeMatch = r.proofP != nil && r.proofP.C != nil && r.proofP.C.Cmp(r.challenge) == 0
	r.userChallenge = new(big.Int).Set(r.challenge)
	proofPs := make([]*ProofP, len(builders))
	for i := range builders {
		if r.partic[i] {
			proofPs[i] = r.proofP
		}
	}
	return builders.BuildDistributedProofList(r.challenge, proofPs)
}

func keyshareP(kssSecret *big.Int, pk *gabikeys.PublicKey) *big.Int {
	return new(big.Int).Exp(pk.R[0], kssSecret, pk.N)
}
