package gabi

// C08 - Verifying untrusted proofs never panics; malformed lists are rejected.
// Engine 1: rapid-driven JSON tree mutator over valid proof lists / issue commitment messages.
// Engine 2 (thorough): native fuzzing over raw bytes and over mutator choices.
// Oracle: (1) no panic from any verification entry point; (2) ACCEPT only if the decoded list
// re-marshals to the seed's canonical form (l_d excluded: it only loosens size limits and is
// not bound by the challenge) and was presented with the seed's session tuple.

import (
	"encoding/json"
	"fmt"
	"github.com/fxamacker/cbor"
	gobig "math/big"
	"os"
	"path/filepath"
	"strings"
	"sync"
	"testing"

	"github.com/privacybydesign/gabi/big"
	"github.com/privacybydesign/gabi/gabikeys"
	"github.com/privacybydesign/gabi/internal/vfh"
	"github.com/privacybydesign/gabi/internal/vfk"
	"github.com/privacybydesign/gabi/rangeproof"
	"pgregory.net/rapid"
)

var c08Strip = map[string]bool{"l_d": true}

type c08Seed struct {
	name   string
	doc    []byte // JSON of the proof list (or of the IssueCommitmentMessage when isMsg)
	isMsg  bool
	pks    []*gabikeys.PublicKey
	ctx    *big.Int
	nonce  *big.Int
	issig  bool
	canon  string // canonical JSON of the decoded+re-marshalled proof list
	nBases int
}

func c08Canon(pl ProofList) string {
	// the signed accumulator travels as an opaque CBOR blob {Msg, Sig}; the decoder matches its two
	// member names case-insensitively, so differently spelled blobs can carry the same signed message.
	// Compare what they carry, not how it was spelled.
	var restore []func()
	for _, p := range pl {
		// a response of 0 for an attribute index >= 1 contributes R_i^0 = 1: a proof with and without such
		// an entry is the same proof (only the zero-secret sessions ever contain zero responses)
		if d, ok := p.(*ProofD); ok && d != nil {
			for i, r := range d.AResponses {
				if i != 0 && r != nil && r.Sign() == 0 {
					i, r, d := i, r, d
					delete(d.AResponses, i)
					restore = append(restore, func() { d.AResponses[i] = r })
				}
			}
			for i, v := range d.ADisclosed {
				if i != 0 && v != nil && v.Sign() == 0 {
					i, v, d := i, v, d
					delete(d.ADisclosed, i)
					restore = append(restore, func() { d.ADisclosed[i] = v })
				}
			}
		}
		if d, ok := p.(*ProofD); ok && d != nil && d.NonRevocationProof != nil && d.NonRevocationProof.SignedAccumulator != nil {
			sa := d.NonRevocationProof.SignedAccumulator
			var t struct{ Msg, Sig []byte }
			if cbor.Unmarshal(sa.Data, &t) == nil {
				if re, err := cbor.Marshal(t, cbor.EncOptions{}); err == nil {
					orig := sa.Data
					sa.Data = re
					restore = append(restore, func() { sa.Data = orig })
				}
			}
		}
	}
	defer func() {
		for _, f := range restore {
			f()
		}
	}()
	b, err := json.Marshal(pl)
	if err != nil {
		return "unmarshalable:" + err.Error()
	}
	return vfh.Canonical(b, c08Strip)
}

var c08Table = rangeproof.GenerateSquaresTable(4096)

// c08Build creates a seed from a shape description: member kinds as in C02 plus "disc+range3".
func c08Build(keys []*vfk.KeyPair, members []c02Member, secret, ctx, nonce *big.Int, issig bool, asMsg bool) (*c08Seed, error) {
	s := &c02Session{worlds: map[int]*revWorld{}, secret: secret, keys: keys, members: members}
	var pl ProofList
	var doc []byte
	var err error
	if asMsg {
		kp := keys[members[0].key]
		var blind []int
		if members[0].kind == "issue+blind" {
			blind = []int{0, 2}
		}
		b, err := NewCredentialBuilder(kp.Pk, ctx, secret, bi(4242), nil, blind)
		if err != nil {
			return nil, err
		}
		msg, err := b.CommitToSecretAndProve(nonce)
		if err != nil {
			return nil, err
		}
		pl = msg.Proofs
		if doc, err = json.Marshal(msg); err != nil {
			return nil, err
		}
		issig = false
	} else {
		var bl ProofBuilderList
		for _, m := range members {
			var b ProofBuilder
			if m.kind == "disc+range3" {
				cred, err := issueDirect(keys[m.key], secret, []*big.Int{bi(11), bi(5000), bi(33)})
				if err != nil {
					return nil, err
				}
				st := &rangeproof.Statement{Sign: 1, Factor: 1, Bound: bi(4990), Splitter: c08Table}
				st2 := &rangeproof.Statement{Sign: -1, Factor: 1, Bound: bi(5100), Splitter: c08Table}
				b, err = cred.CreateDisclosureProofBuilder([]int{1}, map[int][]*rangeproof.Statement{2: {st, st2}}, false)
				if err != nil {
					return nil, err
				}
			} else {
				b, err = s.builder(m, ctx)
				if err != nil {
					return nil, err
				}
			}
			bl = append(bl, b)
		}
		if pl, err = bl.BuildProofList(ctx, nonce, issig); err != nil {
			return nil, err
		}
		if doc, err = json.Marshal(pl); err != nil {
			return nil, err
		}
	}
	// canonical form = decode + re-marshal
	var back ProofList
	plJSON, _ := json.Marshal(pl)
	if err := json.Unmarshal(plJSON, &back); err != nil {
		return nil, err
	}
	name := ""
	for _, m := range members {
		name += m.kind + "@" + keys[m.key].Name + " "
	}
	if asMsg {
		name = "IssueCommitmentMessage:" + name
	}
	return &c08Seed{name: name, doc: doc, isMsg: asMsg, pks: s.pks(), ctx: ctx, nonce: nonce, issig: issig,
		canon: c08Canon(back), nBases: len(keys[0].Pk.R)}, nil
}

// c08Judge decodes doc and runs every entry point. Returns a violation signature or "".
// reached reports whether the document decoded (reached verification).
func c08Judge(seed *c08Seed, doc []byte) (sig string, reached bool, accepted bool) {
	var pl ProofList
	if seed.isMsg {
		var msg IssueCommitmentMessage
		if ps := vfh.Guard(func() {
			if err := json.Unmarshal(doc, &msg); err == nil {
				pl = msg.Proofs
				reached = true
			}
		}); ps != "" {
			return "decode-" + ps, false, false
		}
	} else {
		if ps := vfh.Guard(func() {
			if err := json.Unmarshal(doc, &pl); err == nil {
				reached = true
			}
		}); ps != "" {
			return "decode-" + ps, false, false
		}
	}
	if !reached {
		return "", false, false
	}
	canon := ""
	if ps := vfh.Guard(func() { canon = c08Canon(pl) }); ps != "" {
		canon = "remarshal-panic"
	}
	identical := canon == seed.canon
	pks := seed.pks
	// keys for a list whose length differs from the seed's: pad/cut with the first key
	keysFor := func(n int) []*gabikeys.PublicKey {
		ks := make([]*gabikeys.PublicKey, n)
		for i := range ks {
			if i < len(pks) {
				ks[i] = pks[i]
			} else {
				ks[i] = pks[0]
			}
		}
		return ks
	}
	fresh := func() ProofList {
		// each entry point gets its own decoded copy (verification mutates proof objects)
		var l ProofList
		if seed.isMsg {
			var msg IssueCommitmentMessage
			_ = json.Unmarshal(doc, &msg)
			return msg.Proofs
		}
		_ = json.Unmarshal(doc, &l)
		return l
	}
	type call struct {
		name string
		f    func() bool
	}
	n := len(pl)
	labels := make([]string, n)
	for i := range labels {
		labels[i] = "kss"
	}
	calls := []call{
		{"ProofList.Verify", func() bool { return fresh().Verify(keysFor(n), seed.ctx, seed.nonce, seed.issig, nil) }},
		{"ProofList.Verify+labels", func() bool { return fresh().Verify(keysFor(n), seed.ctx, seed.nonce, seed.issig, labels) }},
	}
	// the same decoded objects verified more than once (verification caches derived data on the
	// proof objects): a refusal must stay a refusal
	calls = append(calls, call{"ProofList.Verify-again-on-the-same-objects", func() bool {
		l := fresh()
		a := l.Verify(keysFor(n), seed.ctx, seed.nonce, seed.issig, nil)
		b := l.Verify(keysFor(n), seed.ctx, seed.nonce, seed.issig, nil)
		return a || b
	}}, call{"ProofList.Verify-after-verifying-each-element", func() bool {
		l := fresh()
		for i, p := range l {
			if i >= n {
				break
			}
			switch p := p.(type) {
			case *ProofD:
				p.Verify(keysFor(n)[i], seed.ctx, seed.nonce, seed.issig)
			case *ProofU:
				p.Verify(keysFor(n)[i], seed.ctx, seed.nonce)
			}
		}
		return l.Verify(keysFor(n), seed.ctx, seed.nonce, seed.issig, nil)
	}})
	// the same objects under well-formed keys with fewer bases (a verifier trying an issuer's keys in
	// turn), after they were verified under the right ones: whatever was derived before, the indices
	// must be checked against the key at hand. Only "returns" is demanded of this call.
	calls = append(calls, call{"ProofList.Verify-under-keys-with-one-base-after-the-right-keys", func() bool {
		l := fresh()
		l.Verify(keysFor(n), seed.ctx, seed.nonce, seed.issig, nil)
		short := make([]*gabikeys.PublicKey, n)
		for i, k := range keysFor(n) {
			c := *k
			c.R = append([]*big.Int{}, k.R[:1]...)
			short[i] = &c
		}
		l.Verify(short, seed.ctx, seed.nonce, seed.issig, nil)
		for i, p := range l {
			if i >= n {
				break
			}
			switch p := p.(type) {
			case *ProofD:
				p.Verify(short[i], seed.ctx, seed.nonce, seed.issig)
			case *ProofU:
				p.Verify(short[i], seed.ctx, seed.nonce)
			}
		}
		return false
	}})
	// the second-stage entry point is public too: called directly on decoded proofs with the challenge they
	// carry (nothing was "set expected" before). Only "returns" is demanded.
	calls = append(calls, call{"Proof.VerifyWithChallenge-directly", func() bool {
		for i, p := range fresh() {
			if i >= n || p == nil {
				continue
			}
			switch p := p.(type) {
			case *ProofD:
				if p != nil && p.C != nil {
					p.VerifyWithChallenge(keysFor(n)[i], p.C)
				}
			case *ProofU:
				if p != nil && p.C != nil {
					p.VerifyWithChallenge(keysFor(n)[i], p.C)
				}
			}
		}
		return false
	}})
	if n >= 1 {
		calls = append(calls, call{"ProofList.Verify-one-key-fewer", func() bool {
			return fresh().Verify(keysFor(n-1), seed.ctx, seed.nonce, seed.issig, nil)
		}})
	}
	for i := 0; i < n && i < 6; i++ {
		i := i
		calls = append(calls, call{fmt.Sprintf("element%d.Verify", i), func() bool {
			switch p := fresh()[i].(type) {
			case *ProofD:
				return p.Verify(keysFor(n)[i], seed.ctx, seed.nonce, seed.issig)
			case *ProofU:
				return p.Verify(keysFor(n)[i], seed.ctx, seed.nonce)
			}
			return false
		}})
	}
	for _, c := range calls {
		var acc bool
		if ps := vfh.Guard(func() { acc = c.f() }); ps != "" {
			return ps, true, false
		}
		if acc {
			accepted = true
			ok := identical && !strings.HasSuffix(c.name, "one-key-fewer")
			if strings.HasPrefix(c.name, "element") {
				// a single element may verify on its own only if it is the seed's single proof
				var i int
				fmt.Sscanf(c.name, "element%d.Verify", &i)
				ok = c08Canon(ProofList{pl[i]}) == seed.canon
			}
			if strings.HasPrefix(c.name, "element") && seed.isMsg == false && n == 1 {
				// ProofU.Verify is the issig=false entry point
				if _, isU := pl[0].(*ProofU); isU && seed.issig {
					ok = false
				}
			}
			if !ok {
				return "malformed-or-altered-list-accepted:" + strings.TrimRight(c.name, "0123456789"), true, true
			}
		}
	}
	return "", true, accepted
}

func c08DrawSeed(t *testing.T, rt *rapid.T) (*c08Seed, error) {
	withRevKey := rapid.Bool().Draw(rt, "revkey")
	kname := "toy"
	if withRevKey {
		kname = "toyrev"
	}
	if rapid.IntRange(0, 19).Draw(rt, "size") == 0 {
		kname = strings.Replace(kname, "toy", "k1024", 1)
	}
	nk := rapid.IntRange(1, 2).Draw(rt, "nkeys")
	first := rapid.IntRange(0, 7).Draw(rt, "key0")
	var keys []*vfk.KeyPair
	for i := 0; i < nk; i++ {
		if strings.HasPrefix(kname, "k1024") {
			keys = append(keys, getKey(kname, (first+i)%3))
		} else {
			keys = append(keys, getKey(kname, (first+i)%8))
		}
	}
	kinds := []string{"disc", "disc+range", "disc+range3", "disc+range2", "issue", "issue+blind"}
	if withRevKey {
		kinds = append(kinds, "disc+nonrev", "disc+nonrev+range", "disc+nonrev")
	}
	asMsg := rapid.IntRange(0, 5).Draw(rt, "asMsg") == 0
	n := rapid.IntRange(1, 3).Draw(rt, "n")
	var members []c02Member
	if asMsg {
		members = []c02Member{{kind: rapid.SampledFrom([]string{"issue", "issue+blind"}).Draw(rt, "mk"), key: 0}}
	} else {
		for i := 0; i < n; i++ {
			members = append(members, c02Member{kind: rapid.SampledFrom(kinds).Draw(rt, fmt.Sprintf("kind%d", i)), key: rapid.IntRange(0, nk-1).Draw(rt, fmt.Sprintf("mkey%d", i))})
		}
	}
	ctx := bi(int64(rapid.IntRange(1, 1000).Draw(rt, "ctx")))
	nonce := bi(int64(rapid.IntRange(1, 1<<30).Draw(rt, "nonce")))
	secret := genSecret(rt, "secret")
	if !asMsg && rapid.IntRange(0, 7).Draw(rt, "zeroSecret") == 0 {
		// a holder whose secret key is 0 and who uses the randomiser 0 for it: the response at index 0
		// is 0 and R_0 contributes nothing, so members of the proof can be removed without disturbing
		// the challenge - the structural checks alone decide
		secret = bi(0)
		for i := range members {
			members[i].kind = "disc+zero"
		}
	}
	return c08Build(keys, members, secret, ctx, nonce, rapid.Bool().Draw(rt, "issig"), asMsg)
}

func c08Subtree(desc []string) string {
	hit := map[string]bool{}
	for _, d := range desc {
		switch {
		case strings.Contains(d, "nonrev_proof"):
			hit["nonrev"] = true
		case strings.Contains(d, "rangeproofs"):
			hit["range"] = true
		case strings.Contains(d, "a_responses") || strings.Contains(d, "a_disclosed") || strings.Contains(d, "m_user_responses"):
			hit["maps"] = true
		case strings.Contains(d, "combinedProofs") || strings.Contains(d, "n_2") || strings.Contains(d, "/U"):
			hit["issuance"] = true
		default:
			hit["main"] = true
		}
	}
	out := ""
	for _, k := range []string{"main", "maps", "nonrev", "range", "issuance"} {
		if hit[k] {
			out += k + "+"
		}
	}
	return strings.TrimSuffix(out, "+")
}

func TestVF_C08_Mutator(t *testing.T) {
	rec := vfh.New(t, "C08")
	defer rec.Flush()
	rec.Check(func(rt *rapid.T) {
		drawLibSeed(t, rt)
		seed, err := c08DrawSeed(t, rt)
		if err != nil {
			rec.Fail(rt, "seed-build-error", map[string]any{"err": err.Error()})
			return
		}
		// control: the unmutated document is accepted (unless it is in the C11 known class)
		if sig, reached, acc := c08Judge(seed, seed.doc); sig != "" || !reached || !acc {
			var pl ProofList
			_ = json.Unmarshal(seed.doc, &pl)
			if sig == "" && reached && !acc && anyC11Ambiguous(pl) {
				rec.Violation("honest-nonrev-proof-rejected:other-hidden-response-below-2^580", seed.name)
				return
			}
			if sig != "" {
				rec.Fail(rt, "unmutated-seed:"+sig, map[string]any{"seed": seed.name})
				return
			}
			rec.Control(false, "unmutated seed not accepted: "+seed.name)
			return
		}
		rec.Control(true, "")
		for k := 0; k < rec.N(12, 24); k++ {
			nops := rapid.IntRange(1, 3).Draw(rt, "nops")
			mut, desc, err := vfh.MutateJSONWith(seed.doc, nops, seed.nBases, vfh.RapidChooser{T: rt}, seed.hostile())
			if err != nil {
				continue
			}
			sig, reached, _ := c08Judge(seed, mut)
			cls := "decode-rejected"
			if reached {
				cls = "reached-verification/" + c08Subtree(desc)
			}
			rec.Case(cls, reached, string(mut))
			rec.Sample(func() any {
				return map[string]any{"seed": seed.name, "mutations": desc, "reached_verification": reached}
			})
			if sig != "" {
				d := map[string]any{"seed": seed.name, "mutations": desc}
				if len(mut) < 6000 {
					d["document"] = string(mut)
				}
				if !rec.Fail(rt, sig, d) {
					return
				}
			}
		}
		// ---- every single member removed / zeroed in turn (a rotating sample when the document is
		// large): the random operator choice above seldom hits one particular map entry of one
		// particular proof of the list
		nl := vfh.JSONLeafCount(seed.doc)
		step := nl/rec.N(6, 20) + 1
		off := 0
		if step > 1 {
			off = rapid.IntRange(0, step-1).Draw(rt, "leafOffset")
		}
		for i := off; i < nl; i += step {
			for _, mode := range []string{"remove", "zero"} {
				alt, path, changed := vfh.JSONAlterLeaf(seed.doc, i, mode)
				if !changed || alt == nil {
					continue
				}
				sig, reached, _ := c08Judge(seed, alt)
				cls := "decode-rejected"
				if reached {
					cls = "reached-verification/single-member-" + mode
				}
				rec.Case(cls, reached, string(alt))
				if sig != "" {
					if !rec.Fail(rt, sig+":single-member-"+mode, map[string]any{"seed": seed.name, "member": path, "edit": mode}) {
						return
					}
				}
			}
		}
	})
}

// hostile constants: documents that decode but are structurally incomplete
var c08Hostile = []string{
	`[{"A":"AQ=="}]`,
	`[{"U":"AQ=="}]`,
	`[{"A":"AQ==","c":"AQ==","e_response":"AQ==","v_response":"AQ==","a_responses":{"1000":"AQ=="},"a_disclosed":{}}]`,
	`[{"A":"AQ==","c":"AQ==","e_response":"AQ==","v_response":"AQ==","a_responses":{"0":"AQ=="},"a_disclosed":{"-1":"AQ=="}}]`,
	`[{"A":"AQ==","c":"AQ==","e_response":"AQ==","v_response":"AQ==","a_responses":{"0":null},"a_disclosed":{"1":null}}]`,
	`[{"A":"AQ==","c":"AQ==","e_response":"AQ==","v_response":"AQ==","a_responses":{"0":"AQ=="},"a_disclosed":{},"nonrev_proof":{}}]`,
	`[{"A":"AQ==","c":"AQ==","e_response":"AQ==","v_response":"AQ==","a_responses":{"0":"AQ=="},"a_disclosed":{},"nonrev_proof":{"C_r":"AQ==","C_u":"AQ==","responses":{},"sacc":null}}]`,
	`[{"A":"AQ==","c":"AQ==","e_response":"AQ==","v_response":"AQ==","a_responses":{"0":"AQ=="},"a_disclosed":{"1":"AQ=="},"rangeproofs":{"1":[{"Cs":["AQ==","AQ==","AQ=="],"ds":[null,null,null],"vs":[],"v5":null,"l_d":1,"sign":1,"a":4,"k":"AQ=="}]}}]`,
	`[{"A":"AQ==","c":"AQ==","e_response":"AQ==","v_response":"AQ==","a_responses":{"0":"AQ=="},"a_disclosed":{},"rangeproofs":{"5":[null]}}]`,
	`[{"U":"AQ==","c":"AQ==","v_prime_response":"AQ==","s_response":"AQ==","m_user_responses":{"99":"AQ==","-3":"AQ=="}}]`,
	`[{"U":"AQ==","c":null,"v_prime_response":null,"s_response":null}]`,
	`[null]`, `[]`, `null`, `[{}]`, `[[]]`, `[{"A":0}]`, `[{"A":"AQ==","a_responses":null}]`,
}

func TestVF_C08_Hostile(t *testing.T) {
	rec := vfh.New(t, "C08")
	defer rec.Flush()
	seedLib(t, 7)
	for _, kname := range []string{"toy", "toyrev"} {
		kp := getKey(kname, 0)
		seed := &c08Seed{name: "hostile/" + kname, pks: []*gabikeys.PublicKey{kp.Pk}, ctx: bi(1), nonce: bi(2), canon: "none", nBases: len(kp.Pk.R)}
		for _, issig := range []bool{false, true} {
			seed.issig = issig
			for _, h := range c08Hostile {
				sig, reached, _ := c08Judge(seed, []byte(h))
				rec.Case("hostile-constant", reached, h+kname+fmt.Sprint(issig))
				if sig != "" {
					rec.FailT(sig, map[string]any{"document": h, "key": kname})
				}
			}
		}
	}
}

// ---- native fuzzing (thorough tier). Seed documents are written once by a preparation test
// (TestVF_C08_WriteFuzzSeeds) into $VF_FUZZSEEDS and loaded by the coordinator and by every
// worker process, so that all processes agree on the session tuples; keys are deterministic.
type c08SeedFile struct {
	Name     string   `json:"name"`
	Doc      []byte   `json:"doc"`
	IsMsg    bool     `json:"is_msg"`
	KeyKinds []string `json:"key_kinds"`
	KeyIdx   []int    `json:"key_idx"`
	Ctx      string   `json:"ctx"`
	Nonce    string   `json:"nonce"`
	Issig    bool     `json:"issig"`
	Canon    string   `json:"canon"`
}

func c08FuzzShapes() ([][]c02Member, [][]c02Member) {
	return [][]c02Member{
		{{"disc", 0}}, {{"disc+range", 0}}, {{"disc+range3", 0}}, {{"disc+nonrev", 0}}, {{"disc+nonrev+range", 0}},
		{{"issue", 0}}, {{"issue+blind", 0}}, {{"disc+nonrev", 0}, {"issue+blind", 1}}, {{"disc+range", 0}, {"disc", 1}, {"issue", 0}},
	}, [][]c02Member{{{"issue", 0}}, {{"issue+blind", 0}}}
}

func TestVF_C08_WriteFuzzSeeds(t *testing.T) {
	dir := os.Getenv("VF_FUZZSEEDS")
	if dir == "" {
		t.Skip("VF_FUZZSEEDS not set")
	}
	seedLib(t, 20260925)
	lists, msgs := c08FuzzShapes()
	keys := []*vfk.KeyPair{getKey("toyrev", 0), getKey("toyrev", 1)}
	var out []c08SeedFile
	add := func(sh []c02Member, i int, issig, asMsg bool) {
		s, err := c08Build(keys, sh, bi(123456789), bi(1), bi(int64(1000+i)), issig, asMsg)
		if err != nil {
			t.Fatal(err)
		}
		f := c08SeedFile{Name: s.name, Doc: s.doc, IsMsg: asMsg, Ctx: s.ctx.String(), Nonce: s.nonce.String(), Issig: s.issig, Canon: s.canon}
		for _, m := range sh {
			f.KeyKinds = append(f.KeyKinds, "toyrev")
			f.KeyIdx = append(f.KeyIdx, m.key)
		}
		out = append(out, f)
	}
	for i, sh := range lists {
		add(sh, i, i%2 == 1, false)
	}
	for i, sh := range msgs {
		add(sh, 100+i, false, true)
	}
	b, _ := json.Marshal(out)
	if err := os.WriteFile(filepath.Join(dir, "c08seeds.json"), b, 0o644); err != nil {
		t.Fatal(err)
	}
}

var (
	c08FuzzOnce  sync.Once
	c08FuzzSeeds []*c08Seed
)

func c08FuzzSetup(t testing.TB) []*c08Seed {
	c08FuzzOnce.Do(func() {
		dir := os.Getenv("VF_FUZZSEEDS")
		b, err := os.ReadFile(filepath.Join(dir, "c08seeds.json"))
		if err != nil {
			return
		}
		var files []c08SeedFile
		if err := json.Unmarshal(b, &files); err != nil {
			panic(err)
		}
		for _, f := range files {
			s := &c08Seed{name: f.Name, doc: f.Doc, isMsg: f.IsMsg, ctx: vfk.S2big(f.Ctx), nonce: vfk.S2big(f.Nonce), issig: f.Issig, canon: f.Canon}
			for i := range f.KeyKinds {
				s.pks = append(s.pks, getKey(f.KeyKinds[i], f.KeyIdx[i]).Pk)
			}
			s.nBases = len(s.pks[0].R)
			c08FuzzSeeds = append(c08FuzzSeeds, s)
		}
	})
	if len(c08FuzzSeeds) == 0 {
		t.Skip("no fuzz seeds (VF_FUZZSEEDS not prepared)")
	}
	return c08FuzzSeeds
}

// FuzzVF_C08_Raw: raw bytes -> decoder -> every entry point; first byte selects the session tuple.
func FuzzVF_C08_Raw(f *testing.F) {
	seeds := c08FuzzSetup(f)
	for i, s := range seeds {
		f.Add(append([]byte{byte(i)}, s.doc...))
	}
	for _, h := range c08Hostile {
		f.Add(append([]byte{0}, h...))
		f.Add(append([]byte{9}, []byte(`{"n_2":"AQ==","combinedProofs":`+h+`}`)...))
	}
	f.Fuzz(func(t *testing.T, data []byte) {
		if len(data) < 2 {
			return
		}
		seed := seeds[int(data[0])%len(seeds)]
		if sig, _, _ := c08Judge(seed, data[1:]); sig != "" {
			t.Fatalf("VF-VIOLATION %s", sig)
		}
	})
}

// FuzzVF_C08_Mut: coverage guides the choice of mutation operators on valid documents.
func FuzzVF_C08_Mut(f *testing.F) {
	seeds := c08FuzzSetup(f)
	for i := range seeds {
		f.Add([]byte{byte(i), 1, 0, 5, 0, 0, 0, 3})
		f.Add([]byte{byte(i), 2, 0, 17, 0, 2, 0, 1, 0, 1, 0, 40, 0, 6, 0, 2})
	}
	f.Fuzz(func(t *testing.T, data []byte) {
		if len(data) < 4 {
			return
		}
		seed := seeds[int(data[0])%len(seeds)]
		ch := &vfh.ByteChooser{Data: data[2:]}
		mut, desc, err := vfh.MutateJSONWith(seed.doc, 1+int(data[1])%3, seed.nBases, ch, seed.hostile())
		if err != nil {
			return
		}
		if sig, _, _ := c08Judge(seed, mut); sig != "" {
			if os.Getenv("VF_DUMP") != "" {
				_ = os.WriteFile(os.Getenv("VF_DUMP")+".seed.json", seed.doc, 0o644)
				_ = os.WriteFile(os.Getenv("VF_DUMP")+".mut.json", mut, 0o644)
			}
			t.Fatalf("VF-VIOLATION %s mutations=%v", sig, desc)
		}
	})
}

// hostile: integers without an inverse modulo a key of the session, and their neighbours
func (s *c08Seed) hostile() []*gobig.Int {
	var out []*gobig.Int
	for _, pk := range s.pks {
		if len(out) >= 8 {
			break
		}
		n := pk.N
		out = append(out, new(big.Int).Set(n).Go(), new(big.Int).Lsh(n, 1).Go(), new(big.Int).Mul(n, bi(3)).Go(), new(big.Int).Sub(n, bi(1)).Go())
	}
	return out
}
