package gabi

// C14 - Keyshare protocol: joint proofs complete, server bound to its commitment.
// Generator (rapid): builder lists of length 1..4 over 1..3 keys (1024-bit keys and the
// 2048-bit key, any order), a participating subset of the keys, builder kinds with/without
// non-revocation and range parts, both session kinds, arbitrary context.
// Oracle: honest exchange => no error, server challenge = user challenge, list verifies with the
// label vector, responses belong to total secret = user + server share. Every alteration of the
// second message relative to the first => error and no response.

import (
	"encoding/json"
	"fmt"
	"testing"

	"github.com/privacybydesign/gabi/big"
	"github.com/privacybydesign/gabi/gabikeys"
	"github.com/privacybydesign/gabi/internal/vfh"
	"github.com/privacybydesign/gabi/internal/vfk"
	"github.com/privacybydesign/gabi/rangeproof"
	"pgregory.net/rapid"
)

type c14Member struct {
	kind string
	key  int
}

type c14Comp struct {
	keys    []*vfk.KeyPair
	partic  []bool // per key
	members []c14Member
	userSec *big.Int
	kssSec  *big.Int
	ctx     *big.Int
	nonce   *big.Int
	issig   bool
}

func (c *c14Comp) String() string {
	s := ""
	for _, m := range c.members {
		p := ""
		if c.partic[m.key] {
			p = "*"
		}
		s += fmt.Sprintf("%s@%s%s ", m.kind, c.keys[m.key].Name, p)
	}
	return fmt.Sprintf("%s issig=%v ctx=%s", s, c.issig, bstr(c.ctx))
}

func (c *c14Comp) kssKeys() map[string]*gabikeys.PublicKey {
	m := map[string]*gabikeys.PublicKey{}
	for i, k := range c.keys {
		if c.partic[i] {
			m[k.Pk.Issuer] = k.Pk
		}
	}
	return m
}

// keyshare credential signed directly: the issuer signs total secret on R_0; the holder keeps
// its own part and the server's public contribution P = R_0^kss.
func (c *c14Comp) credential(m c14Member, nonrev bool) (*Credential, error) {
	kp := c.keys[m.key]
	attrs := []*big.Int{bi(11), bi(5000), bi(33)}
	total := new(big.Int).Set(c.userSec)
	if c.partic[m.key] {
		total.Add(total, c.kssSec)
	}
	var cred *Credential
	var err error
	if nonrev {
		w, e := newRevWorld(kp)
		if e != nil {
			return nil, e
		}
		rc, e := issueRevCred(w, total, attrs)
		if e != nil {
			return nil, e
		}
		cred = rc.cred
	} else if cred, err = issueDirect(kp, total, attrs); err != nil {
		return nil, err
	}
	if c.partic[m.key] {
		cred.Attributes = append([]*big.Int{new(big.Int).Set(c.userSec)}, cred.Attributes[1:]...)
		cred.Signature.KeyshareP = keyshareP(c.kssSec, kp.Pk)
		if !cred.Signature.Verify(kp.Pk, cred.Attributes) {
			return nil, fmt.Errorf("keyshare credential does not verify")
		}
	}
	return cred, nil
}

func (c *c14Comp) builders() (ProofBuilderList, error) {
	var bl ProofBuilderList
	for _, m := range c.members {
		kp := c.keys[m.key]
		var kP *big.Int
		if c.partic[m.key] {
			kP = keyshareP(c.kssSec, kp.Pk)
		}
		switch m.kind {
		case "issue":
			b, err := NewCredentialBuilder(kp.Pk, c.ctx, c.userSec, bi(31337), kP, nil)
			if err != nil {
				return nil, err
			}
			bl = append(bl, b)
		case "issue+blind":
			b, err := NewCredentialBuilder(kp.Pk, c.ctx, c.userSec, bi(31337), kP, []int{0, 2})
			if err != nil {
				return nil, err
			}
			bl = append(bl, b)
		default:
			nonrev := m.kind == "disc+nonrev" || m.kind == "disc+nonrev+range"
			cred, err := c.credential(m, nonrev)
			if err != nil {
				return nil, err
			}
			var st map[int][]*rangeproof.Statement
			if m.kind == "disc+range" || m.kind == "disc+nonrev+range" {
				s1, _ := rangeproof.NewStatement(rangeproof.GreaterOrEqual, bi(4000))
				st = map[int][]*rangeproof.Statement{2: {s1}}
			}
			b, err := cred.CreateDisclosureProofBuilder([]int{1}, st, nonrev)
			if err != nil {
				return nil, err
			}
			bl = append(bl, b)
		}
	}
	return bl, nil
}

func cloneRespRequest(r KeyshareResponseRequest[string]) KeyshareResponseRequest[string] {
	b, _ := json.Marshal(r)
	var out KeyshareResponseRequest[string]
	_ = json.Unmarshal(b, &out)
	// UserChallengeInput has no json tag: it is marshalled under its field name, round-trips fine
	return out
}

func TestVF_C14(t *testing.T) {
	rec := vfh.New(t, "C14")
	defer rec.Flush()
	allKeys := func() []*vfk.KeyPair {
		return []*vfk.KeyPair{getKey("k1024rev", 0), getKey("k1024rev", 1), getKey("k1024rev", 2), getKey("k2048rev", 0)}
	}
	rec.Check(func(rt *rapid.T) {
		drawLibSeed(t, rt)
		pool := allKeys()
		c := &c14Comp{userSec: genSecret(rt, "usec"), kssSec: genSecret(rt, "ksec")}
		nk := rapid.IntRange(1, 3).Draw(rt, "nkeys")
		perm := rapid.Permutation([]int{0, 1, 2, 3}).Draw(rt, "keyperm")
		with2048 := rapid.IntRange(0, 3).Draw(rt, "with2048") == 0
		for _, i := range perm {
			if len(c.keys) == nk {
				break
			}
			if i == 3 && !with2048 {
				continue
			}
			c.keys = append(c.keys, pool[i])
		}
		nk = len(c.keys)
		anyP := false
		for i := 0; i < nk; i++ {
			p := rapid.IntRange(0, 3).Draw(rt, fmt.Sprintf("partic%d", i)) != 0
			c.partic = append(c.partic, p)
			anyP = anyP || p
		}
		n := rapid.IntRange(1, 4).Draw(rt, "n")
		if with2048 && n > 3 {
			n = 3
		}
		kinds := []string{"disc", "disc", "disc+nonrev", "disc+range", "disc+nonrev+range", "issue", "issue+blind"}
		for i := 0; i < n; i++ {
			c.members = append(c.members, c14Member{kind: rapid.SampledFrom(kinds).Draw(rt, fmt.Sprintf("kind%d", i)), key: rapid.IntRange(0, nk-1).Draw(rt, fmt.Sprintf("mkey%d", i))})
		}
		c.ctx = new(big.Int).SetBytes(rapid.SliceOfN(rapid.Byte(), 1, 32).Draw(rt, "ctx"))
		if rapid.IntRange(0, 2).Draw(rt, "ctx1") == 0 {
			c.ctx = bi(1)
		}
		c.nonce = new(big.Int).SetBytes(rapid.SliceOfN(rapid.Byte(), 1, 16).Draw(rt, "nonce"))
		c.issig = rapid.Bool().Draw(rt, "issig")
		det := func(what string) map[string]any { return map[string]any{"composition": c.String(), "what": what} }

		bl, err := c.builders()
		if err != nil {
			rec.Fail(rt, "builder-setup-error", det(err.Error()))
			return
		}
		keys := c.kssKeys()
		if rapid.Bool().Draw(rt, "otherKeyInstances") {
			// the key set of the keyshare protocol is assembled separately from the credentials: the same
			// keys (same values, same issuer and counter), but other objects
			for id, k := range keys {
				cp := *k
				keys[id] = &cp
			}
			rec.Class("keyshare-key-set-holds-other-instances-of-the-keys", 1)
		}
		var run *kssRun
		var pl ProofList
		psig := vfh.Guard(func() {
			run, err = kssPrepare(bl, keys, c.kssSec, c.ctx, c.nonce, c.issig)
			if err == nil {
				pl, err = run.kssFinish(bl)
			}
		})
		nPartic := 0
		for _, m := range c.members {
			if c.partic[m.key] {
				nPartic++
			}
		}
		strict := nPartic > 0 && nPartic < len(c.members)
		rec.Case(fmt.Sprintf("honest/n=%d/participating=%d", len(c.members), nPartic), nk >= 2 && strict || c.ctx.Cmp(bi(1)) != 0, "h|"+c.String())
		rec.Sample(func() any { return det("honest exchange; * marks participating keys") })
		if psig != "" {
			rec.Fail(rt, psig, det("honest exchange"))
			return
		}
		if err != nil {
			rec.Fail(rt, "honest-exchange-error", det(err.Error()))
			return
		}
		if !run.challengeMatch {
			ctxClass := "context=1"
			if c.ctx.Cmp(bi(1)) != 0 {
				ctxClass = "context!=1"
			}
			rec.Fail(rt, "server-challenge-differs-from-user-challenge:"+ctxClass, det("ProofP.C != user challenge"))
			return
		}
		var ok bool
		if ps := vfh.Guard(func() { ok = pl.Verify(run.keysSlice, c.ctx, c.nonce, c.issig, run.labels) }); ps != "" {
			rec.Fail(rt, ps, det("verify joint list"))
			return
		}
		if !ok {
			if anyC11Ambiguous(pl) {
				rec.Violation("honest-nonrev-proof-rejected:other-hidden-response-below-2^580", det("joint list"))
				return
			}
			rec.Fail(rt, "joint-proof-list-rejected", det(""))
			return
		}
		// responses belong to the total secret
		for i, p := range pl {
			resp := p.SecretKeyResponse()
			total := new(big.Int).Set(c.userSec)
			rnd := new(big.Int).Set(run.userRandom)
			if run.partic[i] {
				total.Add(total, c.kssSec)
				rnd.Add(rnd, run.kssRandom)
			}
			want := new(big.Int).Add(rnd, new(big.Int).Mul(run.userChallenge, total))
			if resp == nil || resp.Cmp(want) != 0 {
				rec.Fail(rt, "secret-key-response-not-for-total-secret", det(fmt.Sprintf("position %d", i)))
				return
			}
		}
		// a changed nonce / flag in the second message is not an error (they are not committed to in
		// the first message) but the resulting joint proof must not verify for the original session
		if anyP && nPartic > 0 {
			for _, chg := range []string{"nonce+1", "flag"} {
				bl2, err := c.builders()
				if err != nil {
					break
				}
				run2, err := kssPrepare(bl2, keys, c.kssSec, c.ctx, c.nonce, c.issig)
				if err != nil {
					break
				}
				if chg == "nonce+1" {
					run2.respRequest.Nonce = new(big.Int).Add(c.nonce, bi(1))
				} else {
					run2.respRequest.IsSignatureSession = !c.issig
				}
				pl2, err := run2.kssFinish(bl2)
				rec.Case("uncommitted-field-changed/"+chg, true, "u|"+chg+c.String())
				if err != nil {
					continue // refusing is fine too
				}
				var acc bool
				if ps := vfh.Guard(func() { acc = pl2.Verify(run2.keysSlice, c.ctx, c.nonce, c.issig, run2.labels) }); ps != "" {
					rec.Fail(rt, ps, det(chg))
					return
				}
				if acc {
					rec.Fail(rt, "joint-proof-verifies-although-server-used-other-session-data:"+chg, det(chg))
					return
				}
			}
		}

		// ---- alterations of the second message relative to the first
		type alt struct {
			name string
			f    func(r *KeyshareResponseRequest[string], cr *KeyshareCommitmentRequest) bool
		}
		var alts []alt
		nIn := len(run.respRequest.UserChallengeInput)
		one := bi(1)
		for i := 0; i < nIn; i++ {
			i := i
			pk := run.keysSlice[i]
			alts = append(alts,
				alt{"value+1", func(r *KeyshareResponseRequest[string], _ *KeyshareCommitmentRequest) bool {
					r.UserChallengeInput[i].Value.Add(r.UserChallengeInput[i].Value, one)
					return true
				}},
				alt{"commitment+1", func(r *KeyshareResponseRequest[string], _ *KeyshareCommitmentRequest) bool {
					r.UserChallengeInput[i].Commitment.Add(r.UserChallengeInput[i].Commitment, one)
					return true
				}},
				alt{"commitment+N", func(r *KeyshareResponseRequest[string], _ *KeyshareCommitmentRequest) bool {
					r.UserChallengeInput[i].Commitment.Add(r.UserChallengeInput[i].Commitment, pk.N)
					return true
				}},
				alt{"commitment+3N", func(r *KeyshareResponseRequest[string], _ *KeyshareCommitmentRequest) bool {
					r.UserChallengeInput[i].Commitment.Add(r.UserChallengeInput[i].Commitment, new(big.Int).Mul(pk.N, bi(3)))
					return true
				}},
				alt{"value+N", func(r *KeyshareResponseRequest[string], _ *KeyshareCommitmentRequest) bool {
					r.UserChallengeInput[i].Value.Add(r.UserChallengeInput[i].Value, pk.N)
					return true
				}},
				alt{"other-commitment+1", func(r *KeyshareResponseRequest[string], _ *KeyshareCommitmentRequest) bool {
					oc := r.UserChallengeInput[i].OtherCommitments
					if len(oc) == 0 {
						return false
					}
					oc[len(oc)/2].Add(oc[len(oc)/2], one)
					return true
				}},
				alt{"other-commitment-removed", func(r *KeyshareResponseRequest[string], _ *KeyshareCommitmentRequest) bool {
					oc := r.UserChallengeInput[i].OtherCommitments
					if len(oc) == 0 {
						return false
					}
					r.UserChallengeInput[i].OtherCommitments = oc[:len(oc)-1]
					return true
				}},
				alt{"other-commitment-added", func(r *KeyshareResponseRequest[string], _ *KeyshareCommitmentRequest) bool {
					r.UserChallengeInput[i].OtherCommitments = append(r.UserChallengeInput[i].OtherCommitments, bi(5))
					return true
				}},
				alt{"key-id-removed", func(r *KeyshareResponseRequest[string], _ *KeyshareCommitmentRequest) bool {
					if r.UserChallengeInput[i].KeyID == nil {
						return false
					}
					r.UserChallengeInput[i].KeyID = nil
					return true
				}},
				alt{"key-id-added", func(r *KeyshareResponseRequest[string], _ *KeyshareCommitmentRequest) bool {
					if r.UserChallengeInput[i].KeyID != nil || len(keys) == 0 {
						return false
					}
					for name := range keys {
						n := name
						r.UserChallengeInput[i].KeyID = &n
						break
					}
					return true
				}},
				alt{"key-id-other-known", func(r *KeyshareResponseRequest[string], _ *KeyshareCommitmentRequest) bool {
					if r.UserChallengeInput[i].KeyID == nil {
						return false
					}
					for name := range keys {
						if name != *r.UserChallengeInput[i].KeyID {
							n := name
							r.UserChallengeInput[i].KeyID = &n
							return true
						}
					}
					return false
				}},
				alt{"key-id-unknown", func(r *KeyshareResponseRequest[string], _ *KeyshareCommitmentRequest) bool {
					n := "no-such-key"
					r.UserChallengeInput[i].KeyID = &n
					return true
				}},
				alt{"entry-removed", func(r *KeyshareResponseRequest[string], _ *KeyshareCommitmentRequest) bool {
					r.UserChallengeInput = append(append([]KeyshareUserChallengeInput[string]{}, r.UserChallengeInput[:i]...), r.UserChallengeInput[i+1:]...)
					return true
				}},
				alt{"entry-duplicated", func(r *KeyshareResponseRequest[string], _ *KeyshareCommitmentRequest) bool {
					r.UserChallengeInput = append(r.UserChallengeInput, r.UserChallengeInput[i])
					return true
				}},
			)
		}
		if nIn >= 2 {
			alts = append(alts, alt{"entries-swapped", func(r *KeyshareResponseRequest[string], _ *KeyshareCommitmentRequest) bool {
				a, b := r.UserChallengeInput[0], r.UserChallengeInput[nIn-1]
				if a.Value.Cmp(b.Value) == 0 && a.Commitment.Cmp(b.Commitment) == 0 {
					return false
				}
				r.UserChallengeInput[0], r.UserChallengeInput[nIn-1] = b, a
				return true
			}})
		}
		alts = append(alts,
			alt{"commitment-hash-byte-flipped", func(_ *KeyshareResponseRequest[string], cr *KeyshareCommitmentRequest) bool {
				h := append([]byte{}, cr.HashedUserCommitments...)
				h[len(h)/2] ^= 0x10
				cr.HashedUserCommitments = h
				return true
			}},
			alt{"commitment-hash-truncated", func(_ *KeyshareResponseRequest[string], cr *KeyshareCommitmentRequest) bool {
				cr.HashedUserCommitments = cr.HashedUserCommitments[:len(cr.HashedUserCommitments)-1]
				return true
			}},
			alt{"commitment-hash-empty", func(_ *KeyshareResponseRequest[string], cr *KeyshareCommitmentRequest) bool {
				cr.HashedUserCommitments = nil
				return true
			}},
			alt{"all-entries-removed", func(r *KeyshareResponseRequest[string], _ *KeyshareCommitmentRequest) bool {
				r.UserChallengeInput = nil
				return true
			}},
		)
		for _, a := range alts {
			req := cloneRespRequest(run.respRequest)
			cr := KeyshareCommitmentRequest{HashedUserCommitments: append([]byte{}, run.commRequest.HashedUserCommitments...)}
			if !a.f(&req, &cr) {
				continue
			}
			var pp *ProofP
			var err error
			ps := vfh.Guard(func() { pp, err = KeyshareResponse(c.kssSec, run.kssRandom, cr, req, keys) })
			rec.Case("altered/"+a.name, true, "a|"+a.name+"|"+c.String())
			if ps != "" {
				rec.Fail(rt, ps+":"+a.name, det("altered second message: "+a.name))
				return
			}
			if err == nil || pp != nil {
				rec.Fail(rt, "server-answers-altered-second-message:"+a.name, det("altered second message: "+a.name))
				return
			}
		}
		// control: the unaltered pair is (still) answered
		pp, err := KeyshareResponse(c.kssSec, run.kssRandom, run.commRequest, cloneRespRequest(run.respRequest), keys)
		rec.Control(err == nil && pp != nil && pp.C.Cmp(run.userChallenge) == 0, "unaltered second message refused after JSON clone: "+c.String())
	})
}
