package gabi

// C20 - Concurrent use is safe (built with -race by the driver; race reports are collected
// from the race detector's log and judged there).
// S1: one credential (cache never prepared before) shared by goroutines running a seed-drawn plan
//     of {first-time / repeated cache preparation, proofs with and without non-revocation, lists};
// S2: one public key and one signed accumulator object shared by provers and verifiers.
// Every concurrently produced proof must satisfy the sequential oracles (verifies; randomisers
// and commitments pairwise distinct).

import (
	"encoding/json"
	"fmt"
	"math/rand"
	"runtime"
	"sync"
	"testing"
	"time"

	"github.com/privacybydesign/gabi/big"
	"github.com/privacybydesign/gabi/gabikeys"
	"github.com/privacybydesign/gabi/internal/vfh"
	"github.com/privacybydesign/gabi/internal/vfk"
)

func TestVF_C20_Credential(t *testing.T) {
	rec := vfh.New(t, "C20")
	defer rec.Flush()
	reps := rec.N(32, 1200)
	defer runtime.GOMAXPROCS(runtime.GOMAXPROCS(0))
	for rep := 0; rep < reps; rep++ {
		if !rec.Mine(rep) {
			continue
		}
		prng := rand.New(rand.NewSource(rec.Seed()*1000 + int64(rep))) // plan only; not a schedule
		g := []int{2, 4, 16, 64}[rep%4]
		procs := []int{1, 2, 4, 16}[(rep/4)%4]
		runtime.GOMAXPROCS(procs)
		// a FRESH key object per repetition (same values as the cached fixture): lazily initialised
		// state inside a key must be safe at its first, concurrent use
		kp := vfk.Toy(rep%8, vfNBases, true)
		w, err := newC07World(kp, 1, bi(int64(424242+rep)))
		if err != nil {
			t.Fatal(err)
		}
		// proofs for pure verifiers, made beforehand under the cached key object (equal values)
		old := getKey("toyrev", rep%8)
		wOld, err := newC07World(old, 1, bi(int64(99+rep)))
		if err != nil {
			t.Fatal(err)
		}
		type pre struct {
			p     *ProofD
			nonce *big.Int
		}
		var premade []pre
		for i := 0; i < 4; i++ {
			n := bi(int64(555000 + i))
			p, err := wOld.creds[0].cred.CreateDisclosureProof([]int{1}, c07Stmts(i%2 == 0), true, bi(1), n)
			if err == nil && !c11Ambiguous(p) {
				premade = append(premade, pre{p, n})
			}
		}
		cred := w.creds[0]
		// second credential for S2: other provers under the same public key and accumulator object
		rc2, err := issueRevCred(w.world, bi(int64(424242+rep)), []*big.Int{bi(5), bi(6), bi(7)})
		if err != nil {
			t.Fatal(err)
		}
		type task struct{ op, nonce int }
		plans := make([][]task, g)
		for i := range plans {
			n := 3 + prng.Intn(3)
			for j := 0; j < n; j++ {
				plans[i] = append(plans[i], task{prng.Intn(7), 100000*rep + 100*i + j})
			}
		}
		var mu sync.Mutex
		var problems []string
		var overlap int
		var running int32
		addProblem := func(s string) { mu.Lock(); problems = append(problems, s); mu.Unlock() }
		start := make(chan struct{})
		var wg sync.WaitGroup
		for i := 0; i < g; i++ {
			wg.Add(1)
			go func(i int) {
				defer wg.Done()
				<-start
				mu.Lock()
				running++
				if running >= 2 {
					overlap++
				}
				mu.Unlock()
				defer func() { mu.Lock(); running--; mu.Unlock() }()
				if i%3 == 0 && len(premade) > 0 { // pure verifier on the fresh key object
					pm := premade[i%len(premade)]
					js, _ := json.Marshal(pm.p)
					var back ProofD
					_ = json.Unmarshal(js, &back)
					if !back.Verify(kp.Pk, bi(1), pm.nonce, false) {
						addProblem("pre-made proof rejected under the fresh key object")
					}
				}
				for _, tk := range plans[i] {
					nonce := bi(int64(tk.nonce))
					ctx := bi(1)
					switch tk.op {
					case 0: // cache preparation (first-time for whoever comes first)
						if err := cred.cred.NonrevPrepareCache(); err != nil {
							addProblem("prepare: " + err.Error())
						}
					case 1, 2: // proof with non-revocation on the shared credential
						p, err := cred.cred.CreateDisclosureProof([]int{1}, nil, true, ctx, nonce)
						if err != nil {
							addProblem("prove: " + err.Error())
							continue
						}
						w.ledger.recordProofD(fmt.Sprintf("g%d/n%d", i, tk.nonce), p, cred.cred, cred.revIdx, -1)
						if !p.Verify(kp.Pk, ctx, nonce, false) && !c11Ambiguous(p) {
							addProblem("concurrently produced non-revocation proof rejected")
						}
					case 3: // proof without non-revocation
						p, err := cred.cred.CreateDisclosureProof([]int{1, 2}, nil, false, ctx, nonce)
						if err != nil {
							addProblem("prove: " + err.Error())
							continue
						}
						w.ledger.recordProofD(fmt.Sprintf("g%d/n%d", i, tk.nonce), p, cred.cred, cred.revIdx, -1)
						if !p.Verify(kp.Pk, ctx, nonce, false) {
							addProblem("concurrently produced proof rejected")
						}
					case 4: // S2: another credential under the same key / accumulator object, verified elsewhere
						p, err := rc2.cred.CreateDisclosureProof([]int{2}, nil, true, ctx, nonce)
						if err != nil {
							addProblem("prove(other credential): " + err.Error())
							continue
						}
						if !(ProofList{p}).Verify([]*gabikeys.PublicKey{kp.Pk}, ctx, nonce, false, nil) && !c11Ambiguous(p) {
							addProblem("proof of second credential rejected")
						}
					case 6: // inequality statements (square decompositions are computed while proving)
						p, err := cred.cred.CreateDisclosureProof([]int{1}, c07Stmts(true), false, ctx, nonce)
						if err != nil {
							addProblem("prove(range): " + err.Error())
							continue
						}
						if !p.Verify(kp.Pk, ctx, nonce, false) {
							addProblem("concurrently produced proof with range statements rejected")
						}
					case 5: // proof list over both credentials
						b1, e1 := cred.cred.CreateDisclosureProofBuilder([]int{1}, nil, true)
						b2, e2 := rc2.cred.CreateDisclosureProofBuilder([]int{1}, nil, false)
						if e1 != nil || e2 != nil {
							addProblem("builder error")
							continue
						}
						pl, err := ProofBuilderList{b1, b2}.BuildProofList(ctx, nonce, true)
						if err != nil {
							addProblem("list: " + err.Error())
							continue
						}
						if !pl.Verify([]*gabikeys.PublicKey{kp.Pk, kp.Pk}, ctx, nonce, true, nil) && !anyC11Ambiguous(pl) {
							addProblem("concurrently produced list rejected")
						}
					}
				}
			}(i)
		}
		t0 := time.Now()
		close(start)
		wg.Wait()
		rec.Case(fmt.Sprintf("S1S2/goroutines=%d/GOMAXPROCS=%d", g, procs), overlap > 0, fmt.Sprintf("c20|%d|%d|%d|%d", rep, g, procs, rec.Seed()))
		rec.Class("proofs", int64(w.ledger.proofs))
		if rep < 4 {
			rec.Sample(func() any {
				return map[string]any{"script": "S1+S2", "goroutines": g, "GOMAXPROCS": procs, "plan_of_goroutine_0": fmt.Sprint(plans[0]), "overlapping": overlap, "seconds": time.Since(t0).Seconds()}
			})
		}
		if len(w.ledger.dup) > 0 {
			rec.FailT("randomiser-or-commitment-reused-under-concurrency", map[string]any{"goroutines": g, "what": w.ledger.dup[0]})
		}
		if len(problems) > 0 {
			rec.FailT("concurrently-produced-result-invalid", map[string]any{"goroutines": g, "GOMAXPROCS": procs, "what": problems[0], "count": len(problems)})
		}
	}
}
