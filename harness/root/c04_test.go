package gabi

// C04 - Selective disclosure is complete and minimal.
// Generator: rapid draws key, k = 1..6 attribute values from boundary classes (at least one
// "distinctive"), variant (plain / random-blind issuance / non-revocation); the property then
// enumerates ALL 2^k disclosure subsets x both session kinds.
// Oracle: ground truth (key sets, exact values), verification, and a leak scan of the proof's
// JSON and of the timestamp contribution for distinctive hidden values and their SHA-256.

import (
	"crypto/sha256"
	"encoding/base64"
	"encoding/json"
	"fmt"
	gobig "math/big"
	"strings"
	"testing"

	"github.com/privacybydesign/gabi/big"
	"github.com/privacybydesign/gabi/gabikeys"
	"github.com/privacybydesign/gabi/internal/vfh"
	"github.com/privacybydesign/gabi/internal/vfk"
	"pgregory.net/rapid"
)

// allInts collects every integer occurring in a JSON document: base64 strings and numbers.
func allInts(doc []byte) (map[string]bool, error) {
	t, err := vfh.ParseJSON(doc)
	if err != nil {
		return nil, err
	}
	out := map[string]bool{}
	var walk func(v any)
	walk = func(v any) {
		switch c := v.(type) {
		case map[string]any:
			for k, x := range c {
				if n, ok := new(gobig.Int).SetString(k, 10); ok {
					_ = n // map keys are indices, not values
				}
				walk(x)
			}
		case []any:
			for _, x := range c {
				walk(x)
			}
		case string:
			if raw, err := base64.StdEncoding.DecodeString(c); err == nil {
				out[new(gobig.Int).SetBytes(raw).String()] = true
			}
			if n, ok := new(gobig.Int).SetString(c, 10); ok {
				out[n.String()] = true
			}
			if n, ok := new(gobig.Int).SetString(c, 16); ok {
				out[n.String()] = true
			}
		case json.Number:
			if n, ok := new(gobig.Int).SetString(c.String(), 10); ok {
				out[n.String()] = true
			}
		}
	}
	walk(t)
	return out, nil
}

func sha256Int(v *big.Int) *gobig.Int {
	h := sha256.Sum256(v.Go().Bytes())
	return new(gobig.Int).SetBytes(h[:])
}

func isDistinctive(v *big.Int) bool { return v.BitLen() >= 60 }

type c04Cred struct {
	kp      *vfk.KeyPair
	cred    *Credential
	variant string
	revIdx  int // -1 if none
	classes []string
}

// issueViaProtocol runs the full issuance protocol with the given blind index set (0-based,
// excluding the secret) and returns the credential.
func issueViaProtocol(kp *vfk.KeyPair, secret *big.Int, attrs []*big.Int, blind []int, ctx *big.Int) (*Credential, error) {
	nonce1, nonce2 := bi(987654321), bi(123123123)
	b, err := NewCredentialBuilder(kp.Pk, ctx, secret, nonce2, nil, blind)
	if err != nil {
		return nil, err
	}
	msg, err := b.CommitToSecretAndProve(nonce1)
	if err != nil {
		return nil, err
	}
	if !msg.Proofs.Verify(keys1(kp), ctx, nonce1, false, nil) {
		return nil, fmt.Errorf("commitment proof does not verify")
	}
	iss := NewIssuer(kp.Sk, kp.Pk, ctx)
	in := append([]*big.Int{}, attrs...)
	for _, j := range blind {
		in[j] = nil
	}
	sm, err := iss.IssueSignature(msg.U, in, nil, nonce2, blind)
	if err != nil {
		return nil, err
	}
	in2 := append([]*big.Int{}, in...)
	return b.ConstructCredential(sm, in2)
}

func TestVF_C04(t *testing.T) {
	rec := vfh.New(t, "C04")
	defer rec.Flush()
	rec.Check(func(rt *rapid.T) {
		drawLibSeed(t, rt)
		variant := rapid.SampledFrom([]string{"plain", "plain", "plain", "random-blind", "random-blind", "nonrev", "nonrev", "keyshare"}).Draw(rt, "variant")
		kp := drawKey(rt, variant == "nonrev", true)
		if variant == "keyshare" {
			kp = getKey("k1024", rapid.IntRange(0, 2).Draw(rt, "kskey")) // the keyshare server only knows 1024/2048-bit parameters
		}
		kssSecret := genSecret(rt, "kss")
		kmax := 6
		if kp.Bits == 1024 {
			kmax = rec.N(3, 5)
		} else if kp.Bits > 1024 {
			kmax = rec.N(2, 3)
		}
		k := rapid.IntRange(1, kmax).Draw(rt, "k")
		lm := kp.Pk.Params.Lm
		attrs := make([]*big.Int, k)
		classes := make([]string, k)
		hasDist := false
		for i := range attrs {
			attrs[i], classes[i] = genAttr(rt, fmt.Sprintf("a%d", i), lm)
			if isDistinctive(attrs[i]) {
				hasDist = true
			}
		}
		if !hasDist {
			j := rapid.IntRange(0, k-1).Draw(rt, "distpos")
			b := rapid.SliceOfN(rapid.Byte(), 12, 31).Draw(rt, "distval")
			b[0] |= 0x80
			attrs[j], classes[j] = new(big.Int).SetBytes(b), "distinctive"
		}
		secret := genSecret(rt, "secret")
		ctx := new(big.Int).SetBytes(rapid.SliceOfN(rapid.Byte(), 1, 32).Draw(rt, "ctx"))
		nonce := new(big.Int).SetBytes(rapid.SliceOfN(rapid.Byte(), 1, 16).Draw(rt, "nonce"))

		c := &c04Cred{kp: kp, variant: variant, revIdx: -1, classes: classes}
		var err error
		switch variant {
		case "plain":
			c.cred, err = issueDirect(kp, secret, attrs)
		case "keyshare":
			// the issuer signs the total secret; the holder keeps its own part and the server's P
			c.cred, err = issueDirect(kp, new(big.Int).Add(secret, kssSecret), attrs)
			if err == nil {
				c.cred.Attributes = append([]*big.Int{new(big.Int).Set(secret)}, c.cred.Attributes[1:]...)
				c.cred.Signature.KeyshareP = keyshareP(kssSecret, kp.Pk)
			}
		case "random-blind":
			var blind []int
			for i := 0; i < k; i++ {
				if rapid.Bool().Draw(rt, fmt.Sprintf("blind%d", i)) {
					blind = append(blind, i)
				}
			}
			c.cred, err = issueViaProtocol(kp, secret, attrs, blind, ctx)
			if err == nil {
				for _, j := range blind {
					classes[j] = "blind-sum"
				}
			}
		case "nonrev":
			var w *revWorld
			w, err = newRevWorld(kp)
			if err == nil {
				var rc *revCred
				rc, err = issueRevCred(w, secret, attrs)
				if err == nil {
					c.cred, c.revIdx = rc.cred, rc.revIdx
				}
			}
		}
		if err != nil {
			rec.Fail(rt, "credential-issuance-error:"+variant, map[string]any{"err": err.Error(), "classes": classes, "key": kp.Name})
			return
		}
		// ground truth incl. secret (and witness value): a deep copy taken now - the credential object
		// is used for every subset in turn and must still hold these values at the end
		ms := make([]*big.Int, len(c.cred.Attributes))
		for i, a := range c.cred.Attributes {
			ms[i] = new(big.Int).Set(a)
		}
		nAll := len(ms) - 1 // non-secret attributes incl. revocation attribute
		det := func(D []int, issig bool, extra string) map[string]any {
			a := make([]string, len(ms))
			for i, m := range ms {
				a[i] = bstr(m)
			}
			return map[string]any{"key": kp.Name, "variant": variant, "attrs": a, "classes": classes, "disclose": D, "signature_session": issig, "what": extra}
		}
		rec.Sample(func() any { return det(nil, false, "credential; all 2^k subsets x 2 session kinds follow") })

		for mask := 0; mask < 1<<uint(k); mask++ {
			var D []int
			for i := 0; i < k; i++ {
				if mask&(1<<uint(i)) != 0 {
					D = append(D, i+1)
				}
			}
			// the choice is a set: the order in which the caller lists it must not matter
			if len(D) >= 2 {
				switch rapid.IntRange(0, 2).Draw(rt, "order") {
				case 1:
					for i, j := 0, len(D)-1; i < j; i, j = i+1, j-1 {
						D[i], D[j] = D[j], D[i]
					}
				case 2:
					D[0], D[len(D)-1] = D[len(D)-1], D[0]
				}
			}
			for _, issig := range []bool{false, true} {
				if kp.Bits >= 1024 && issig && mask%2 == 1 && !rec.Thorough() {
					continue // big keys: half of the signature-session subsets in the quick tier
				}
				oversized := false
				for _, i := range D {
					if ms[i].BitLen() > int(lm) {
						oversized = true
					}
				}
				cls := fmt.Sprintf("%s/k=%d/bits=%d", variant, k, kp.Bits)
				rec.Case(cls, (mask != 0 && mask != (1<<uint(k))-1) || oversized,
					fmt.Sprintf("%s|%s|%v|%d|%v", kp.Name, variant, classes, mask, issig))

				b, err := c.cred.CreateDisclosureProofBuilder(D, nil, variant == "nonrev")
				if err != nil {
					rec.Fail(rt, "proof-builder-error", det(D, issig, err.Error()))
					return
				}
				// in a signature session the nonce depends on the timestamp, so the contribution is
				// asked for before anything was committed; it is read again after the proof was made
				var tsA0 *big.Int
				var tsVec0 []*big.Int
				if psig := vfh.Guard(func() { tsA0, tsVec0 = b.TimestampRequestContributions() }); psig != "" {
					rec.Fail(rt, psig+":TimestampRequestContributions-before-commit", det(D, issig, ""))
					return
				}
				var proof *ProofD
				if psig := vfh.Guard(func() {
					var pl ProofList
					var e error
					if variant == "keyshare" {
						bl := ProofBuilderList{b}
						var run *kssRun
						run, e = kssPrepare(bl, map[string]*gabikeys.PublicKey{kp.Pk.Issuer: kp.Pk}, kssSecret, ctx, nonce, issig)
						if e == nil {
							pl, e = run.kssFinish(bl)
						}
					} else {
						pl, e = ProofBuilderList{b}.BuildProofList(ctx, nonce, issig)
					}
					err = e
					if e == nil {
						proof = pl[0].(*ProofD)
					}
				}); psig != "" {
					rec.Fail(rt, psig, det(D, issig, "panic while proving"))
					return
				}
				if err != nil {
					rec.Fail(rt, "proof-creation-error", det(D, issig, err.Error()))
					return
				}
				tsA, tsVec := b.TimestampRequestContributions()
				js, err := json.Marshal(proof)
				if err != nil {
					rec.Fail(rt, "proof-marshal-error", det(D, issig, err.Error()))
					return
				}
				// verification, on the wire form
				var back ProofD
				if err := json.Unmarshal(js, &back); err != nil {
					rec.Fail(rt, "proof-unmarshal-error", det(D, issig, err.Error()))
					return
				}
				if !back.Verify(kp.Pk, ctx, nonce, issig) {
					if c11Ambiguous(&back) {
						rec.Violation("honest-nonrev-proof-rejected:other-hidden-response-below-2^580", det(D, issig, ""))
						continue
					}
					rec.Fail(rt, "honest-proof-rejected", det(D, issig, ""))
					return
				}
				if back.Verify(kp.Pk, ctx, nonce, !issig) {
					rec.Fail(rt, "proof-verifies-for-other-session-kind", det(D, issig, ""))
					return
				}
				// exact key sets and values
				inD := map[int]bool{}
				for _, i := range D {
					inD[i] = true
				}
				if len(proof.ADisclosed) != len(D) {
					rec.Fail(rt, "disclosed-index-set-differs-from-chosen-set", det(D, issig, fmt.Sprint(sortedKeys(proof.ADisclosed))))
					return
				}
				for _, i := range D {
					v, ok := proof.ADisclosed[i]
					if !ok {
						rec.Fail(rt, "disclosed-index-set-differs-from-chosen-set", det(D, issig, fmt.Sprint(sortedKeys(proof.ADisclosed))))
						return
					}
					if v.Cmp(ms[i]) != 0 {
						rec.Fail(rt, "disclosed-value-is-not-the-attribute-value", det(D, issig, fmt.Sprintf("index %d reports %s", i, bstr(v))))
						return
					}
				}
				wantHidden := 0
				for i := 0; i <= nAll; i++ {
					if inD[i] {
						continue
					}
					wantHidden++
					r, ok := proof.AResponses[i]
					if !ok || r == nil {
						rec.Fail(rt, "missing-response-for-hidden-index", det(D, issig, fmt.Sprintf("index %d", i)))
						return
					}
					// hiding sanity: the implied randomiser response - c*m must be a full-size draw
					impl := new(big.Int).Sub(r, new(big.Int).Mul(proof.C, expOf(ms[i], lm)))
					minBits := int(kp.Pk.Params.LmCommit) - 80
					if i == c.revIdx {
						minBits = 579 - 80
					}
					if impl.Sign() < 0 || impl.BitLen() < minBits {
						rec.Fail(rt, "hidden-response-not-randomised", det(D, issig, fmt.Sprintf("index %d implied randomiser has %d bits", i, impl.BitLen())))
						return
					}
				}
				if len(proof.AResponses) != wantHidden {
					rec.Fail(rt, "response-index-set-differs-from-complement", det(D, issig, fmt.Sprint(sortedKeys(proof.AResponses))))
					return
				}
				// leak scan
				ints, err := allInts(js)
				if err != nil {
					rt.Fatalf("scan: %v", err)
				}
				for i := 0; i <= nAll; i++ {
					if inD[i] || !isDistinctive(ms[i]) {
						continue
					}
					legit := false // the same value (or its hash) is legitimately disclosed at another index
					for _, j := range D {
						if ms[j].Cmp(ms[i]) == 0 || ms[j].Go().Cmp(sha256Int(ms[i])) == 0 || sha256Int(ms[j]).Cmp(ms[i].Go()) == 0 {
							legit = true
						}
					}
					if legit {
						continue
					}
					if ints[ms[i].String()] || ints[sha256Int(ms[i]).String()] {
						rec.Fail(rt, "hidden-attribute-value-appears-in-proof", det(D, issig, fmt.Sprintf("index %d", i)))
						return
					}
					if strings.Contains(string(js), ms[i].String()) {
						rec.Fail(rt, "hidden-attribute-value-appears-in-proof-text", det(D, issig, fmt.Sprintf("index %d", i)))
						return
					}
				}
				// timestamp request contribution
				for _, ts := range []struct {
					when string
					a    *big.Int
					vec  []*big.Int
				}{{"", tsA, tsVec}, {":asked-before-commit", tsA0, tsVec0}} {
					if ts.a == nil || ts.a.Cmp(proof.A) != 0 {
						rec.Fail(rt, "timestamp-contribution-A-differs-from-proof-A"+ts.when, det(D, issig, ""))
						return
					}
					if len(ts.vec) != len(ms) {
						rec.Fail(rt, "timestamp-contribution-wrong-length"+ts.when, det(D, issig, fmt.Sprint(len(ts.vec))))
						return
					}
					for i, v := range ts.vec {
						if inD[i] {
							if v == nil || v.Cmp(ms[i]) != 0 {
								rec.Fail(rt, "timestamp-contribution-disclosed-value-wrong"+ts.when, det(D, issig, fmt.Sprintf("index %d", i)))
								return
							}
						} else if v == nil || v.Sign() != 0 {
							rec.Fail(rt, "timestamp-contribution-leaks-hidden-attribute"+ts.when, det(D, issig, fmt.Sprintf("index %d", i)))
							return
						}
					}
				}
				// proving must not change the credential it proves from
				for i := range ms {
					if i < len(c.cred.Attributes) && c.cred.Attributes[i].Cmp(ms[i]) != 0 {
						rec.Fail(rt, "proving-changes-the-credential", det(D, issig, fmt.Sprintf("attribute %d", i)))
						return
					}
				}
			}
		}
	})
}
