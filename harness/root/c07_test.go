package gabi

// C07 - Proof randomness is never reused.
// rapid state machine over 1..3 credentials with witnesses and a pool of issuance builders.
// Every produced proof is recorded together with the secrets it was made from; the invariant
// (checked after every step, over all pairs) is that every implied commitment randomiser
// rho = response - c*secret, every randomised A, every C_r/C_u and every range commitment is
// unique - except the shared "secretkey" randomiser inside one proof list.

import (
	"fmt"
	"regexp"
	"sync"
	"testing"

	"github.com/privacybydesign/gabi/big"
	"github.com/privacybydesign/gabi/gabikeys"
	"github.com/privacybydesign/gabi/internal/vfh"
	"github.com/privacybydesign/gabi/internal/vfk"
	"github.com/privacybydesign/gabi/rangeproof"
	"github.com/privacybydesign/gabi/revocation"
	"pgregory.net/rapid"
)

type c07Ledger struct {
	mu            sync.Mutex
	seen          map[string]string // value -> "proof#role"
	listOf        map[string]int    // "proof#role" -> list id (for the shared secret-key randomiser)
	proofs        int
	pairs         int64
	consumedCache int
	dup           []string
}

func newC07Ledger() *c07Ledger {
	return &c07Ledger{seen: map[string]string{}, listOf: map[string]int{}}
}

// add registers a value that must be globally unique. listID >= 0 marks values that may repeat
// within the same list (the shared secret-key randomiser).
func (l *c07Ledger) add(kind string, v *big.Int, owner string, listID int) {
	if v == nil {
		return
	}
	key := kind + ":" + v.String()
	l.mu.Lock()
	defer l.mu.Unlock()
	l.pairs += int64(len(l.seen))
	if prev, ok := l.seen[key]; ok {
		if listID >= 0 && l.listOf[prev] == listID {
			return
		}
		l.dup = append(l.dup, fmt.Sprintf("%s repeated: %s and %s", kind, prev, owner))
		return
	}
	l.seen[key] = owner
	if listID >= 0 {
		l.listOf[owner] = listID
	} else {
		l.listOf[owner] = -1
	}
}

func (l *c07Ledger) recordProofD(name string, p *ProofD, cred *Credential, revIdx int, listID int) {
	pk := cred.Pk
	lm := pk.Params.Lm
	l.mu.Lock()
	l.proofs++
	l.mu.Unlock()
	l.add("A", p.A, name+"#A", -1)
	for i, r := range p.AResponses {
		if i >= len(cred.Attributes) {
			continue
		}
		rho := new(big.Int).Sub(r, new(big.Int).Mul(p.C, expOf(cred.Attributes[i], lm)))
		lid := -1
		if i == 0 {
			lid = listID
		}
		// all attribute randomisers live in one namespace: a randomiser shared between two
		// attributes leaks their difference just as well
		l.add("rho", rho, fmt.Sprintf("%s#a%d", name, i), lid)
	}
	ePrime := new(big.Int).Sub(cred.Signature.E, pow2(pk.Params.Le-1))
	l.add("rho", new(big.Int).Sub(p.EResponse, new(big.Int).Mul(p.C, ePrime)), name+"#e", -1)
	l.add("resp-v", p.VResponse, name+"#v", -1)
	if p.NonRevocationProof != nil {
		l.add("C_r", p.NonRevocationProof.Cr, name+"#C_r", -1)
		l.add("C_u", p.NonRevocationProof.Cu, name+"#C_u", -1)
		for _, n := range []string{"beta", "delta", "epsilon", "zeta"} {
			l.add("nonrev-resp", p.NonRevocationProof.Responses[n], name+"#"+n, -1)
		}
	}
	for idx, rps := range p.RangeProofs {
		for j, rp := range rps {
			for k, c := range rp.Cs {
				l.add("rangeC", c, fmt.Sprintf("%s#range%d.%d.C%d", name, idx, j, k), -1)
			}
			for k, d := range rp.DResponses {
				l.add("range-resp", d, fmt.Sprintf("%s#range%d.%d.d%d", name, idx, j, k), -1)
			}
			for k, d := range rp.VResponses {
				l.add("range-resp", d, fmt.Sprintf("%s#range%d.%d.v%d", name, idx, j, k), -1)
			}
			l.add("range-resp", rp.V5Response, fmt.Sprintf("%s#range%d.%d.v5", name, idx, j), -1)
		}
	}
}

func (l *c07Ledger) recordProofU(name string, p *ProofU, b *CredentialBuilder, listID int) {
	name = fmt.Sprintf("%s{builder %p}", name, b)
	l.mu.Lock()
	l.proofs++
	l.mu.Unlock()
	if sec := credBuilderSecret(b); sec != nil {
		l.add("rho", new(big.Int).Sub(p.SResponse, new(big.Int).Mul(p.C, sec)), name+"#s", listID)
	} else {
		l.add("resp-s", p.SResponse, name+"#s", listID) // white-box field unavailable: raw response
	}
	if vp := credBuilderVPrime(b); vp != nil {
		l.add("rho", new(big.Int).Sub(p.VPrimeResponse, new(big.Int).Mul(p.C, vp)), name+"#vprime", -1)
	}
	mu := credBuilderMUser(b)
	for i, r := range p.MUserResponses {
		if mu != nil && mu[i] != nil {
			l.add("rho", new(big.Int).Sub(r, new(big.Int).Mul(p.C, mu[i])), fmt.Sprintf("%s#m%d", name, i), -1)
		}
	}
}

type c07World struct {
	kp            *vfk.KeyPair
	world         *revWorld
	creds         []*revCred
	builders      []*CredentialBuilder
	ledger        *c07Ledger
	nonce         int64
	ctx           *big.Int
	history       []string
	cachePrepared map[int]bool
}

func newC07World(kp *vfk.KeyPair, ncreds int, secret *big.Int) (*c07World, error) {
	w := &c07World{kp: kp, ledger: newC07Ledger(), ctx: bi(1), cachePrepared: map[int]bool{}}
	var err error
	if w.world, err = newRevWorld(kp); err != nil {
		return nil, err
	}
	for i := 0; i < ncreds; i++ {
		rc, err := issueRevCred(w.world, secret, []*big.Int{bi(int64(100 + i)), bi(int64(7000 + i)), bi(int64(33 + i))})
		if err != nil {
			return nil, err
		}
		w.creds = append(w.creds, rc)
	}
	return w, nil
}

func (w *c07World) nextNonce() *big.Int { w.nonce++; return bi(1000003 + w.nonce) }

func c07Stmts(withRange bool) map[int][]*rangeproof.Statement {
	if !withRange {
		return nil
	}
	s1, _ := rangeproof.NewStatement(rangeproof.GreaterOrEqual, bi(6000))
	s2, _ := rangeproof.NewStatement(rangeproof.LesserOrEqual, bi(9000))
	return map[int][]*rangeproof.Statement{2: {s1, s2}}
}

// prove creates and records one disclosure proof; returns an error string on failure.
func (w *c07World) prove(ci int, nonrev, withRange bool) (string, *ProofD) {
	rc := w.creds[ci]
	nonce := w.nextNonce()
	p, err := rc.cred.CreateDisclosureProof([]int{1}, c07Stmts(withRange), nonrev, w.ctx, nonce)
	if err != nil {
		return "honest-proof-error: " + err.Error(), nil
	}
	name := fmt.Sprintf("p%d(cred%d,nonrev=%v,range=%v)", w.ledger.proofs, ci, nonrev, withRange)
	if nonrev && w.cachePrepared[ci] {
		w.ledger.consumedCache++
		w.cachePrepared[ci] = false
	}
	w.ledger.recordProofD(name, p, rc.cred, rc.revIdx, -1)
	if !p.Verify(w.kp.Pk, w.ctx, nonce, false) {
		if c11Ambiguous(p) {
			return "C11", p
		}
		return "honest-proof-rejected", p
	}
	return "", p
}

func TestVF_C07(t *testing.T) {
	rec := vfh.New(t, "C07")
	defer rec.Flush()
	rec.Check(func(rt *rapid.T) {
		drawLibSeed(t, rt) // once per history: re-seeding inside a history would fabricate repeats
		kp := getKey("toyrev", rapid.IntRange(0, 7).Draw(rt, "key"))
		if rapid.IntRange(0, 39).Draw(rt, "size") == 0 {
			kp = getKey("k1024rev", 0)
		}
		ncreds := rapid.IntRange(1, 3).Draw(rt, "ncreds")
		secret := genSecret(rt, "secret")
		w, err := newC07World(kp, ncreds, secret)
		if err != nil {
			rt.Fatalf("setup: %v", err)
		}
		fail := func(sig string, what string) {
			rec.Fail(rt, sig, map[string]any{"key": kp.Name, "history": w.history, "what": what})
		}
		step := func(s string) { w.history = append(w.history, s) }
		pickCred := func(rt *rapid.T) int { return rapid.IntRange(0, ncreds-1).Draw(rt, "cred") }
		doProve := func(rt *rapid.T, nonrev bool) {
			ci := pickCred(rt)
			withRange := rapid.IntRange(0, 3).Draw(rt, "range") == 0
			step(fmt.Sprintf("prove(cred%d,nonrev=%v,range=%v)", ci, nonrev, withRange))
			if e, p := w.prove(ci, nonrev, withRange); e != "" {
				if e == "C11" {
					rec.Violation("honest-nonrev-proof-rejected:other-hidden-response-below-2^580", map[string]any{"history": w.history})
					return
				}
				_ = p
				fail(e[:min(len(e), 40)], e)
			}
		}
		rt.Repeat(map[string]func(*rapid.T){
			"prepareCache": func(rt *rapid.T) {
				ci := pickCred(rt)
				step(fmt.Sprintf("prepareCache(cred%d)", ci))
				if err := w.creds[ci].cred.NonrevPrepareCache(); err != nil {
					fail("prepare-cache-error", err.Error())
				}
				w.cachePrepared[ci] = true
			},
			"revokeOtherAndUpdate": func(rt *rapid.T) {
				other, err := w.world.newWitness()
				if err != nil {
					rt.Fatalf("witness: %v", err)
				}
				upd, err := w.world.revoke(other.E)
				if err != nil {
					rt.Fatalf("revoke: %v", err)
				}
				which := rapid.IntRange(0, (1<<uint(ncreds))-1).Draw(rt, "who")
				step(fmt.Sprintf("revokeOther+update(mask=%b)", which))
				for i, rc := range w.creds {
					if which&(1<<uint(i)) == 0 {
						continue
					}
					full, err := w.world.updateFrom(rc.cred.NonRevocationWitness.SignedAccumulator.Accumulator.Index + 1)
					if err != nil {
						rt.Fatalf("update: %v", err)
					}
					_ = upd
					if err := rc.cred.NonRevocationWitness.Update(kp.Pk, full); err != nil {
						fail("witness-update-error", err.Error())
					}
				}
			},
			"proveNonrev": func(rt *rapid.T) { doProve(rt, true) },
			"prove":       func(rt *rapid.T) { doProve(rt, false) },
			"proofList": func(rt *rapid.T) {
				n := rapid.IntRange(2, 3).Draw(rt, "n")
				var bl ProofBuilderList
				type member struct {
					ci int
					cb *CredentialBuilder
				}
				var ms []member
				desc := ""
				for i := 0; i < n; i++ {
					if rapid.IntRange(0, 3).Draw(rt, "kind") == 0 {
						var cb *CredentialBuilder
						if len(w.builders) > 0 && rapid.Bool().Draw(rt, "reuse") {
							cb = w.builders[rapid.IntRange(0, len(w.builders)-1).Draw(rt, "b")]
							desc += "issuance(existing) "
						} else {
							var err error
							cb, err = NewCredentialBuilder(kp.Pk, w.ctx, secret, w.nextNonce(), nil, []int{1})
							if err != nil {
								rt.Fatalf("builder: %v", err)
							}
							w.builders = append(w.builders, cb)
							desc += "issuance(new) "
						}
						bl = append(bl, cb)
						ms = append(ms, member{-1, cb})
					} else {
						ci := pickCred(rt)
						nonrev := rapid.Bool().Draw(rt, "nonrev")
						b, err := w.creds[ci].cred.CreateDisclosureProofBuilder([]int{1}, c07Stmts(rapid.IntRange(0, 3).Draw(rt, "range") == 0), nonrev)
						if err != nil {
							fail("honest-builder-error", err.Error())
							return
						}
						if nonrev && w.cachePrepared[ci] {
							w.ledger.consumedCache++
							w.cachePrepared[ci] = false
						}
						bl = append(bl, b)
						ms = append(ms, member{ci, nil})
						desc += fmt.Sprintf("disclosure(cred%d,nonrev=%v) ", ci, nonrev)
					}
				}
				step("proofList[" + desc + "]")
				nonce := w.nextNonce()
				issig := rapid.Bool().Draw(rt, "issig")
				pl, err := bl.BuildProofList(w.ctx, nonce, issig)
				if err != nil {
					fail("honest-list-error", err.Error())
					return
				}
				listID := w.ledger.proofs + 1000000
				var pks []*gabikeys.PublicKey
				for i, p := range pl {
					pks = append(pks, kp.Pk)
					name := fmt.Sprintf("p%d(list%d[%d])", w.ledger.proofs, listID, i)
					switch q := p.(type) {
					case *ProofD:
						w.ledger.recordProofD(name, q, w.creds[ms[i].ci].cred, w.creds[ms[i].ci].revIdx, listID)
					case *ProofU:
						w.ledger.recordProofU(name, q, ms[i].cb, listID)
					}
				}
				if !pl.Verify(pks, w.ctx, nonce, issig, nil) {
					if anyC11Ambiguous(pl) {
						rec.Violation("honest-nonrev-proof-rejected:other-hidden-response-below-2^580", map[string]any{"history": w.history})
						return
					}
					fail("honest-list-rejected", desc)
				}
			},
			"issuanceCommit": func(rt *rapid.T) {
				var cb *CredentialBuilder
				if len(w.builders) > 0 && rapid.Bool().Draw(rt, "reuse") {
					cb = w.builders[rapid.IntRange(0, len(w.builders)-1).Draw(rt, "b")]
					step("CommitToSecretAndProve(existing builder)")
				} else {
					var err error
					cb, err = NewCredentialBuilder(kp.Pk, w.ctx, secret, w.nextNonce(), nil, []int{0})
					if err != nil {
						rt.Fatalf("builder: %v", err)
					}
					w.builders = append(w.builders, cb)
					step("CommitToSecretAndProve(new builder)")
				}
				nonce := w.nextNonce()
				msg, err := cb.CommitToSecretAndProve(nonce)
				if err != nil {
					fail("honest-commit-error", err.Error())
					return
				}
				pu, _ := msg.Proofs.GetFirstProofU()
				w.ledger.recordProofU(fmt.Sprintf("p%d(issuance)", w.ledger.proofs), pu, cb, -1)
				if !msg.Proofs.Verify(keys1(kp), w.ctx, nonce, false, nil) {
					fail("honest-commitment-rejected", "")
				}
			},
			"": func(rt *rapid.T) {
				for len(w.ledger.dup) > 0 {
					d := w.ledger.dup[0]
					w.ledger.dup = w.ledger.dup[1:]
					if c07SameBuilderVprimeOrBlind(d) {
						// known finding: one CredentialBuilder producing two proofs repeats the
						// randomisers of v' and of the blind shares (fixed at construction)
						if rec.Violation("randomiser-reused:same-issuance-builder-used-twice:vprime-or-blind-share", map[string]any{"history": w.history, "what": d}) {
							continue
						}
						fail("randomiser-reused:same-issuance-builder-used-twice:vprime-or-blind-share", d)
					}
					sig := "randomiser-or-commitment-reused:" + stripDigits(d[:min(len(d), 12)])
					fail(sig, d)
				}
			},
		})
		nt := w.ledger.proofs >= 2 && w.ledger.consumedCache >= 1
		rec.Case(fmt.Sprintf("history/proofs>=2:%v/consumed-cache:%v", w.ledger.proofs >= 2, w.ledger.consumedCache >= 1), nt, fmt.Sprint(w.history))
		rec.Class("pairs-compared", w.ledger.pairs)
		rec.Class("proofs", int64(w.ledger.proofs))
		rec.Sample(func() any {
			return map[string]any{"key": kp.Name, "credentials": ncreds, "history": w.history, "proofs": w.ledger.proofs}
		})
	})
}

// c07RandomizerStorm: the source of all non-revocation proof randomness drawn concurrently;
// a value handed out twice means two proofs can share a randomiser.
func c07RandomizerStorm(rec *vfh.Rec, goroutines, per int) {
	out := make([][]string, goroutines)
	var wg sync.WaitGroup
	for i := 0; i < goroutines; i++ {
		wg.Add(1)
		go func(i int) {
			defer wg.Done()
			l := make([]string, per)
			for j := range l {
				l[j] = string(revocation.NewProofRandomizer().Go().Bytes())
			}
			out[i] = l
		}(i)
	}
	wg.Wait()
	seen := make(map[string]struct{}, goroutines*per)
	dups := 0
	for _, l := range out {
		for _, v := range l {
			if _, ok := seen[v]; ok {
				dups++
			}
			seen[v] = struct{}{}
		}
	}
	rec.Case(fmt.Sprintf("randomizer-storm/goroutines=%d", goroutines), true, fmt.Sprintf("storm|%d|%d|%d", goroutines, per, rec.Seed()))
	rec.Class("pairs-compared", int64(goroutines*per))
	if dups > 0 {
		rec.FailT("randomiser-or-commitment-reused:concurrent-NewProofRandomizer", map[string]any{"goroutines": goroutines, "draws": goroutines * per, "duplicates": dups})
	}
}

// TestVF_C07_Concurrent: the same kinds of proofs from 2..32 goroutines on shared credentials.
func TestVF_C07_Concurrent(t *testing.T) {
	rec := vfh.New(t, "C07")
	defer rec.Flush()
	if rec.Shard() == 0 {
		for _, g := range []int{2, 8, 32} {
			c07RandomizerStorm(rec, g, rec.N(30000, 200000)/g*4)
		}
	}
	reps := rec.N(6, 60)
	for rep := 0; rep < reps; rep++ {
		if !rec.Mine(rep) {
			continue
		}
		kp := getKey("toyrev", rep%8)
		w, err := newC07World(kp, 2, bi(int64(9999999+rep)))
		if err != nil {
			t.Fatal(err)
		}
		g := []int{2, 4, 8, 16, 32}[rep%5]
		per := 6
		var wg sync.WaitGroup
		var mu sync.Mutex
		var problems []string
		for i := 0; i < g; i++ {
			wg.Add(1)
			go func(i int) {
				defer wg.Done()
				for j := 0; j < per; j++ {
					ci := (i + j) % 2
					rc := w.creds[ci]
					if (i+j)%5 == 0 {
						if err := rc.cred.NonrevPrepareCache(); err != nil {
							mu.Lock()
							problems = append(problems, "prepare: "+err.Error())
							mu.Unlock()
						}
						continue
					}
					nonce := bi(int64(1000*i + j + 77))
					p, err := rc.cred.CreateDisclosureProof([]int{1}, nil, (i+j)%3 != 0, w.ctx, nonce)
					if err != nil {
						mu.Lock()
						problems = append(problems, "prove: "+err.Error())
						mu.Unlock()
						continue
					}
					w.ledger.recordProofD(fmt.Sprintf("g%d.%d(cred%d)", i, j, ci), p, rc.cred, rc.revIdx, -1)
					if !p.Verify(kp.Pk, w.ctx, nonce, false) && !c11Ambiguous(p) {
						mu.Lock()
						problems = append(problems, "concurrently produced proof rejected")
						mu.Unlock()
					}
				}
			}(i)
		}
		wg.Wait()
		rec.Case(fmt.Sprintf("concurrent/goroutines=%d", g), true, fmt.Sprintf("conc|%d|%d|%d", rep, g, rec.Seed()))
		rec.Class("pairs-compared", w.ledger.pairs)
		rec.Class("proofs", int64(w.ledger.proofs))
		if len(w.ledger.dup) > 0 {
			rec.FailT("randomiser-or-commitment-reused:concurrent", map[string]any{"goroutines": g, "what": w.ledger.dup[0]})
		}
		if len(problems) > 0 {
			rec.FailT("concurrent-proof-failure", map[string]any{"goroutines": g, "what": problems[0]})
		}
	}
}

var c07DupRe = regexp.MustCompile(`^rho repeated: \S+\{builder (0x[0-9a-f]+)\}#(vprime|m\d+) and \S+\{builder (0x[0-9a-f]+)\}#(vprime|m\d+)$`)

// c07SameBuilderVprimeOrBlind recognises the one duplicate class that is a recorded finding:
// both values are v'- or blind-share randomisers of proofs made by the same builder object.
func c07SameBuilderVprimeOrBlind(d string) bool {
	m := c07DupRe.FindStringSubmatch(d)
	return m != nil && m[1] == m[3] && m[2] == m[4]
}
