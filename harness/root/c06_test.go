package gabi

// C06 - Issuance: honest runs succeed, deviations are rejected.
// Generator: configuration = key x attribute list x random-blind subset x keyshare on/off x
// witness on/off (rapid); then a complete enumeration of single-field alterations and cross-run
// substitutions of the protocol messages, one at a time, every message passing through JSON.
// Oracle: honest => credential over exactly (secret, attrs) with blind_i = user share + issuer
// share; each deviation => the receiving call fails and no credential is produced.

import (
	"encoding/json"
	"fmt"
	"testing"

	"github.com/privacybydesign/gabi/big"
	"github.com/privacybydesign/gabi/gabikeys"
	"github.com/privacybydesign/gabi/internal/vfh"
	"github.com/privacybydesign/gabi/internal/vfk"
	"github.com/privacybydesign/gabi/revocation"
	"pgregory.net/rapid"
)

type c06Config struct {
	kp            *vfk.KeyPair
	attrs         []*big.Int // true attribute values for non-blind positions; blind positions unused
	classes       []string
	blind         []int // 0-based indices into attrs
	keyshare      bool
	witness       bool
	lastBaseBlind bool
	secret        *big.Int
	kssSecret     *big.Int
	ctx           *big.Int
	nonce1        *big.Int
	nonce2        *big.Int
}

func (c *c06Config) String() string {
	return fmt.Sprintf("key=%s n=%d classes=%v blind=%v keyshare=%v witness=%v", c.kp.Name, len(c.attrs), c.classes, c.blind, c.keyshare, c.witness)
}

type c06Run struct {
	cfg     *c06Config
	builder *CredentialBuilder
	msg1    []byte // IssueCommitmentMessage JSON
	msg2    []byte // IssueSignatureMessage JSON
	inAttrs []*big.Int
	labels  []string
	world   *revWorld
}

func (c *c06Config) issuerAttrs(w *revocation.Witness) []*big.Int {
	in := append([]*big.Int{}, c.attrs...)
	if w != nil {
		in = append(in, w.E)
	}
	for _, j := range c.blind {
		in[j] = nil
	}
	return in
}

// userStep1 creates the builder and the commitment message (through the keyshare exchange if on).
func c06UserStep1(c *c06Config, nonce1, nonce2, ctx *big.Int) (*CredentialBuilder, *IssueCommitmentMessage, []string, error) {
	var kP *big.Int
	if c.keyshare {
		kP = keyshareP(c.kssSecret, c.kp.Pk)
	}
	b, err := NewCredentialBuilder(c.kp.Pk, ctx, c.secret, nonce2, kP, c.blind)
	if err != nil {
		return nil, nil, nil, err
	}
	if !c.keyshare {
		m, err := b.CommitToSecretAndProve(nonce1)
		return b, m, nil, err
	}
	bl := ProofBuilderList{b}
	run, err := kssPrepare(bl, map[string]*gabikeys.PublicKey{c.kp.Pk.Issuer: c.kp.Pk}, c.kssSecret, ctx, nonce1, false)
	if err != nil {
		return nil, nil, nil, err
	}
	// the pinned API leaves Context out of the request unless the caller sets it; C14 judges that
	run.respRequest.Context = ctx
	pl, err := run.kssFinish(bl)
	if err != nil {
		return nil, nil, nil, err
	}
	return b, b.CreateIssueCommitmentMessage(pl), run.labels, nil
}

func c06IssuerVerify(kp *vfk.KeyPair, msg1 []byte, ctx, nonce1 *big.Int, labels []string) (ok bool, m *IssueCommitmentMessage, psig string) {
	m = &IssueCommitmentMessage{}
	if err := json.Unmarshal(msg1, m); err != nil {
		return false, nil, ""
	}
	psig = vfh.Guard(func() { ok = m.Proofs.Verify(keys1(kp), ctx, nonce1, false, labels) })
	return
}

func c06Honest(c *c06Config) (*c06Run, *Credential, string, error) {
	r := &c06Run{cfg: c}
	b, m1, labels, err := c06UserStep1(c, c.nonce1, c.nonce2, c.ctx)
	if err != nil {
		return nil, nil, "user-step1-error", err
	}
	r.builder, r.labels = b, labels
	if r.msg1, err = json.Marshal(m1); err != nil {
		return nil, nil, "msg1-marshal-error", err
	}
	ok, dm1, psig := c06IssuerVerify(c.kp, r.msg1, c.ctx, c.nonce1, labels)
	if psig != "" {
		return nil, nil, psig, fmt.Errorf("panic")
	}
	if !ok {
		return nil, nil, "honest-commitment-proof-rejected", fmt.Errorf("issuer rejected honest commitment")
	}
	var wit *revocation.Witness
	if c.witness {
		if r.world, err = newRevWorld(c.kp); err != nil {
			return nil, nil, "revocation-setup-error", err
		}
		if wit, err = r.world.newWitness(); err != nil {
			return nil, nil, "revocation-setup-error", err
		}
	}
	r.inAttrs = c.issuerAttrs(wit)
	iss := NewIssuer(c.kp.Sk, c.kp.Pk, c.ctx)
	m2, err := iss.IssueSignature(dm1.U, append([]*big.Int{}, r.inAttrs...), wit, dm1.Nonce2, c.blind)
	if err != nil {
		return nil, nil, "honest-issue-signature-error", err
	}
	if r.msg2, err = json.Marshal(m2); err != nil {
		return nil, nil, "msg2-marshal-error", err
	}
	cred, psig, err := c06Construct(r.builder, r.msg2, r.inAttrs)
	if psig != "" {
		return nil, nil, psig, fmt.Errorf("panic")
	}
	if err != nil {
		return nil, nil, "honest-construct-credential-error", err
	}
	return r, cred, "", nil
}

func c06Construct(b *CredentialBuilder, msg2 []byte, inAttrs []*big.Int) (cred *Credential, psig string, err error) {
	m := &IssueSignatureMessage{}
	if err := json.Unmarshal(msg2, m); err != nil {
		return nil, "", err
	}
	psig = vfh.Guard(func() { cred, err = b.ConstructCredential(m, append([]*big.Int{}, inAttrs...)) })
	return
}

// a builder may be used for one ConstructCredential attempt per alteration: it is not consumed
// by a failed attempt (it holds no per-attempt state), which the honest re-run at the end checks.

func TestVF_C06(t *testing.T) {
	rec := vfh.New(t, "C06")
	defer rec.Flush()
	rec.Check(func(rt *rapid.T) {
		drawLibSeed(t, rt)
		c := &c06Config{}
		c.witness = rapid.Bool().Draw(rt, "witness")
		c.keyshare = rapid.Bool().Draw(rt, "keyshare")
		c.kp = drawKey(rt, true, true)
		// attribute count: up to every base of the key (the witness value takes the last one)
		nmax := len(c.kp.Pk.R) - 1
		if c.witness {
			nmax--
		}
		n := rapid.IntRange(1, nmax).Draw(rt, "n")
		if rapid.IntRange(0, 3).Draw(rt, "fill") == 0 {
			n = nmax // all bases in use
		}
		for i := 0; i < n; i++ {
			v, cl := genAttr(rt, fmt.Sprintf("a%d", i), c.kp.Pk.Params.Lm)
			c.attrs = append(c.attrs, v)
			c.classes = append(c.classes, cl)
			if rapid.IntRange(0, 2).Draw(rt, fmt.Sprintf("blind%d", i)) == 0 {
				c.blind = append(c.blind, i)
				if i == len(c.kp.Pk.R)-2 {
					c.lastBaseBlind = true
				}
			}
		}
		c.secret = genSecret(rt, "secret")
		c.kssSecret = genSecret(rt, "kss")
		c.ctx = new(big.Int).SetBytes(rapid.SliceOfN(rapid.Byte(), 1, 32).Draw(rt, "ctx"))
		c.nonce1 = new(big.Int).SetBytes(rapid.SliceOfN(rapid.Byte(), 1, 10).Draw(rt, "n1"))
		c.nonce2 = new(big.Int).SetBytes(rapid.SliceOfN(rapid.Byte(), 1, 10).Draw(rt, "n2"))
		c.nonce2.Add(c.nonce2, bi(2))
		cfgClass := fmt.Sprintf("blind=%d/keyshare=%v/witness=%v/bits=%d", len(c.blind), c.keyshare, c.witness, c.kp.Bits)
		if n == nmax {
			rec.Class(fmt.Sprintf("all-bases-in-use/last-base-random-blind=%v", c.lastBaseBlind), 1)
		}
		det := func(what string) map[string]any { return map[string]any{"config": c.String(), "deviation": what} }

		run, cred, sig, err := c06Honest(c)
		rec.Case("honest/"+cfgClass, true, "h|"+c.String())
		rec.Sample(func() any { return det("none (honest run)") })
		if err != nil {
			rec.Fail(rt, sig, det(err.Error()))
			return
		}
		// ---- honest outcome
		pk := c.kp.Pk
		if !cred.Signature.Verify(pk, cred.Attributes) {
			rec.Fail(rt, "honest-credential-signature-invalid", det(""))
			return
		}
		var m2 IssueSignatureMessage
		_ = json.Unmarshal(run.msg2, &m2)
		if len(cred.Attributes) != len(run.inAttrs)+1 || cred.Attributes[0].Cmp(c.secret) != 0 {
			rec.Fail(rt, "honest-credential-wrong-attributes", det("length or secret"))
			return
		}
		isBlind := map[int]bool{}
		for _, j := range c.blind {
			isBlind[j] = true
		}
		for i, a := range run.inAttrs {
			got := cred.Attributes[i+1]
			if isBlind[i] {
				mu := credBuilderMUser(run.builder)
				if mu == nil {
					rec.Class("whitebox-unavailable/CredentialBuilder.mUser", 1)
					continue
				}
				us, is := mu[i+1], m2.MIssuer[i+1]
				if us == nil || is == nil || got == nil || got.Cmp(new(big.Int).Add(us, is)) != 0 {
					rec.Fail(rt, "blind-attribute-is-not-sum-of-shares", det(fmt.Sprintf("index %d", i+1)))
					return
				}
			} else if got == nil || got.Cmp(a) != 0 {
				rec.Fail(rt, "honest-credential-wrong-attributes", det(fmt.Sprintf("index %d", i+1)))
				return
			}
		}
		if c.witness {
			if cred.NonRevocationWitness == nil || cred.NonRevocationWitness.Verify(pk) != nil {
				rec.Fail(rt, "honest-credential-witness-invalid", det(""))
				return
			}
			if idx, err := cred.NonrevIndex(); err != nil || idx != len(run.inAttrs) {
				rec.Fail(rt, "honest-credential-nonrev-index-wrong", det(fmt.Sprint(idx, err)))
				return
			}
		}

		// second honest run for cross-run substitutions (other nonces, other commitment)
		c2 := *c
		c2.nonce1 = new(big.Int).Add(c.nonce1, bi(1))
		c2.nonce2 = new(big.Int).Add(c.nonce2, bi(1))
		run2, _, _, err2 := c06Honest(&c2)

		// ---- deviations of message 1, receiver = issuer's proof verification
		rejectAtIssuer := func(what string, msg1 []byte, ctx, nonce1 *big.Int) bool {
			ok, _, psig := c06IssuerVerify(c.kp, msg1, ctx, nonce1, run.labels)
			rec.Case("msg1/"+what, true, "m1|"+cfgClass+"|"+what)
			if psig != "" {
				return rec.Fail(rt, psig+":msg1:"+stripDigits(what), det("msg1 "+what))
			}
			if ok {
				return rec.Fail(rt, "altered-commitment-message-accepted:"+stripDigits(what), det("msg1 "+what))
			}
			return true
		}
		edit1 := func(f func(m *IssueCommitmentMessage, p *ProofU)) []byte {
			var m IssueCommitmentMessage
			_ = json.Unmarshal(run.msg1, &m)
			p, _ := m.Proofs.GetFirstProofU()
			f(&m, p)
			b, _ := json.Marshal(&m)
			return b
		}
		vmax := pow2(pk.Params.LvPrimeCommit + 1)
		m1devs := map[string][]byte{
			"proofU.U+1":         edit1(func(m *IssueCommitmentMessage, p *ProofU) { p.U.Add(p.U, bi(1)) }),
			"proofU.U*S":         edit1(func(m *IssueCommitmentMessage, p *ProofU) { p.U.Mul(p.U, pk.S).Mod(p.U, pk.N) }),
			"proofU.c+1":         edit1(func(m *IssueCommitmentMessage, p *ProofU) { p.C.Add(p.C, bi(1)) }),
			"proofU.v_prime+1":   edit1(func(m *IssueCommitmentMessage, p *ProofU) { p.VPrimeResponse.Add(p.VPrimeResponse, bi(1)) }),
			"proofU.v_prime+ord": edit1(func(m *IssueCommitmentMessage, p *ProofU) { p.VPrimeResponse.Add(p.VPrimeResponse, c.kp.Sk.Order) }),
			"proofU.v_prime>range": edit1(func(m *IssueCommitmentMessage, p *ProofU) {
				p.VPrimeResponse.Add(p.VPrimeResponse, new(big.Int).Mul(c.kp.Sk.Order, vmax))
			}),
			"proofU.s_response+1": edit1(func(m *IssueCommitmentMessage, p *ProofU) { p.SResponse.Add(p.SResponse, bi(1)) }),
			"proofU.s_response-1": edit1(func(m *IssueCommitmentMessage, p *ProofU) { p.SResponse.Sub(p.SResponse, bi(1)) }),
		}
		// v_prime + ord keeps the proven statement: it stays valid as long as it is in range
		delete(m1devs, "proofU.v_prime+ord")
		// part of the secret-key response moved onto a second response for the same base R_0: the
		// reconstructed commitment is unchanged, the proof no longer binds s_response to U
		m1devs["proofU.s_response-split-onto-m_user_responses[0]"] = edit1(func(m *IssueCommitmentMessage, p *ProofU) {
			k := new(big.Int).Rsh(p.SResponse, 1)
			p.SResponse.Sub(p.SResponse, k)
			if p.MUserResponses == nil {
				p.MUserResponses = map[int]*big.Int{}
			}
			p.MUserResponses[0] = k
		})
		for _, j := range c.blind {
			j := j
			m1devs[fmt.Sprintf("proofU.m_user_responses[%d]+1", j+1)] = edit1(func(m *IssueCommitmentMessage, p *ProofU) {
				p.MUserResponses[j+1].Add(p.MUserResponses[j+1], bi(1))
			})
			m1devs[fmt.Sprintf("proofU.m_user_responses[%d]-removed", j+1)] = edit1(func(m *IssueCommitmentMessage, p *ProofU) {
				delete(p.MUserResponses, j+1)
			})
		}
		for what, msg := range m1devs {
			if !rejectAtIssuer(what, msg, c.ctx, c.nonce1) {
				return
			}
		}
		if !rejectAtIssuer("other-nonce1", run.msg1, c.ctx, new(big.Int).Add(c.nonce1, bi(1))) ||
			!rejectAtIssuer("other-context", run.msg1, new(big.Int).Add(c.ctx, bi(1)), c.nonce1) {
			return
		}
		if err2 == nil {
			if !rejectAtIssuer("proof-replayed-from-other-run", run2.msg1, c.ctx, c.nonce1) {
				return
			}
		}
		// the out-of-range v' response must be rejected although it proves the same statement
		{
			ok, _, _ := c06IssuerVerify(c.kp, edit1(func(m *IssueCommitmentMessage, p *ProofU) { p.VPrimeResponse.Add(p.VPrimeResponse, c.kp.Sk.Order) }), c.ctx, c.nonce1, run.labels)
			// in range (toy keys: ord << range) => still a valid proof of the same statement; out of range (big keys) => reject
			var m IssueCommitmentMessage
			_ = json.Unmarshal(run.msg1, &m)
			p, _ := m.Proofs.GetFirstProofU()
			inRange := new(big.Int).Add(p.VPrimeResponse, c.kp.Sk.Order).Cmp(new(big.Int).Sub(vmax, bi(1))) <= 0
			rec.Case(fmt.Sprintf("msg1/v_prime+ord(inrange=%v)", inRange), true, "m1|"+cfgClass+"|vord")
			if ok != inRange {
				rec.Fail(rt, fmt.Sprintf("v_prime-response-shifted-by-ord-inrange-%v-verdict-%v", inRange, ok), det("msg1 v_prime+ord"))
				return
			}
		}

		// ---- deviations judged at the user's ConstructCredential
		rejectAtUser := func(what string, b *CredentialBuilder, msg2 []byte, in []*big.Int) bool {
			rec.Case("msg2/"+what, true, "m2|"+cfgClass+"|"+what)
			m := &IssueSignatureMessage{}
			if err := json.Unmarshal(msg2, m); err != nil {
				return true // refused by the decoder
			}
			// the received message object is presented twice (a holder that retries after a failure)
			for _, tag := range []string{"", ":second-attempt-with-the-same-message-object"} {
				var cr *Credential
				var err error
				psig := vfh.Guard(func() { cr, err = b.ConstructCredential(m, append([]*big.Int{}, in...)) })
				if psig != "" {
					return rec.Fail(rt, psig+":msg2:"+stripDigits(what)+tag, det("msg2 "+what))
				}
				if err == nil || cr != nil {
					return rec.Fail(rt, "deviation-yields-credential:"+stripDigits(what)+tag, det("msg2 "+what))
				}
			}
			return true
		}
		edit2 := func(f func(m *IssueSignatureMessage)) []byte {
			var m IssueSignatureMessage
			_ = json.Unmarshal(run.msg2, &m)
			f(&m)
			b, _ := json.Marshal(&m)
			return b
		}
		ord := c.kp.Sk.Order
		m2devs := map[string][]byte{
			"proofS.c+1":          edit2(func(m *IssueSignatureMessage) { m.Proof.C.Add(m.Proof.C, bi(1)) }),
			"proofS.e_response+1": edit2(func(m *IssueSignatureMessage) { m.Proof.EResponse.Add(m.Proof.EResponse, bi(1)) }),
			"signature.A*S":       edit2(func(m *IssueSignatureMessage) { m.Signature.A.Mul(m.Signature.A, pk.S).Mod(m.Signature.A, pk.N) }),
			"signature.A+1":       edit2(func(m *IssueSignatureMessage) { m.Signature.A.Add(m.Signature.A, bi(1)) }),
			"signature.v+1":       edit2(func(m *IssueSignatureMessage) { m.Signature.V.Add(m.Signature.V, bi(1)) }),
			"signature.v+ord":     edit2(func(m *IssueSignatureMessage) { m.Signature.V.Add(m.Signature.V, ord) }),
			"signature.e-other":   edit2(func(m *IssueSignatureMessage) { m.Signature.E.Set(getEBounds(pk.Params).firstIn) }),
		}
		// v + ord leaves the signature equation intact (S has order ord): it is not a deviation
		delete(m2devs, "signature.v+ord")
		if m2.Signature.E.Cmp(getEBounds(pk.Params).firstIn) == 0 {
			delete(m2devs, "signature.e-other")
		}
		for _, j := range c.blind {
			j := j
			m2devs[fmt.Sprintf("m_issuer[%d]+1", j+1)] = edit2(func(m *IssueSignatureMessage) { m.MIssuer[j+1].Add(m.MIssuer[j+1], bi(1)) })
			m2devs[fmt.Sprintf("m_issuer[%d]-removed", j+1)] = edit2(func(m *IssueSignatureMessage) { delete(m.MIssuer, j+1) })
			m2devs[fmt.Sprintf("m_issuer[%d]-rekeyed", j+1)] = edit2(func(m *IssueSignatureMessage) {
				m.MIssuer[len(run.inAttrs)+2] = m.MIssuer[j+1]
				delete(m.MIssuer, j+1)
			})
		}
		if len(c.blind) >= 2 {
			a, b := c.blind[0]+1, c.blind[1]+1
			if m2.MIssuer[a].Cmp(m2.MIssuer[b]) != 0 {
				m2devs["m_issuer-swapped"] = edit2(func(m *IssueSignatureMessage) { m.MIssuer[a], m.MIssuer[b] = m.MIssuer[b], m.MIssuer[a] })
			}
		}
		if c.witness {
			m2devs["witness.u*S"] = edit2(func(m *IssueSignatureMessage) {
				m.NonRevocationWitness.U.Mul(m.NonRevocationWitness.U, pk.S).Mod(m.NonRevocationWitness.U, pk.N)
			})
			m2devs["witness.e+2"] = edit2(func(m *IssueSignatureMessage) { m.NonRevocationWitness.E.Add(m.NonRevocationWitness.E, bi(2)) })
			m2devs["witness.sacc-byte-flipped"] = edit2(func(m *IssueSignatureMessage) {
				d := append([]byte{}, m.NonRevocationWitness.SignedAccumulator.Data...)
				d[len(d)/2] ^= 0x01
				m.NonRevocationWitness.SignedAccumulator.Data = d
			})
			// a self-consistent forged witness (u', nu' = u'^e) under an accumulator message that is
			// not signed by the issuer (signed with another key; counter field set to the issuer's)
			if okp := getKey("toyrev", (int(c.kp.Pk.Counter)+3)%8); okp.Sk.N.Cmp(c.kp.Sk.N) != 0 && run.world != nil {
				m2devs["witness-forged-under-accumulator-not-signed-by-issuer"] = edit2(func(m *IssueSignatureMessage) {
					w := m.NonRevocationWitness
					u := new(big.Int).Mod(new(big.Int).Mul(w.U, pk.S), pk.N)
					facc := &revocation.Accumulator{Nu: new(big.Int).Exp(u, w.E, pk.N), Index: run.world.acc.Index, Time: run.world.acc.Time + 1, EventHash: run.world.acc.EventHash}
					fs, err := facc.Sign(okp.Sk)
					if err != nil {
						return
					}
					m.NonRevocationWitness = &revocation.Witness{U: u, E: w.E, SignedAccumulator: &revocation.SignedAccumulator{Data: fs.Data, PKCounter: c.kp.Pk.Counter}}
				})
			}
			m2devs["witness.sacc-dropped"] = edit2(func(m *IssueSignatureMessage) { m.NonRevocationWitness.SignedAccumulator = nil })
			m2devs["witness.pk-counter+1"] = edit2(func(m *IssueSignatureMessage) { m.NonRevocationWitness.SignedAccumulator.PKCounter++ })
			// a foreign (valid) witness of the same accumulator: its e is not an attribute of this credential
			if w2, err := run.world.newWitness(); err == nil {
				m2devs["witness-foreign"] = edit2(func(m *IssueSignatureMessage) { m.NonRevocationWitness = w2 })
			}
		} else if w, err := newRevWorld(c.kp); err == nil {
			if w2, err := w.newWitness(); err == nil {
				m2devs["witness-added"] = edit2(func(m *IssueSignatureMessage) { m.NonRevocationWitness = w2 })
			}
		}
		// the issuer signs another value for a known attribute and compensates with a KeyshareP
		// element in the signature it sends (an ordinary field of the message)
		if !c.keyshare {
			for i, a := range run.inAttrs {
				if a == nil || (c.witness && i == len(run.inAttrs)-1) {
					continue
				}
				other := append([]*big.Int{}, run.inAttrs...)
				other[i] = new(big.Int).Add(expOf(a, pk.Params.Lm), bi(1))
				if expOf(other[i], pk.Params.Lm).Cmp(new(big.Int).Add(expOf(a, pk.Params.Lm), bi(1))) != 0 {
					continue
				}
				var wit0 *revocation.Witness
				if c.witness {
					wit0 = m2.NonRevocationWitness
				}
				var d1 IssueCommitmentMessage
				_ = json.Unmarshal(run.msg1, &d1)
				sm, err := NewIssuer(c.kp.Sk, pk, c.ctx).IssueSignature(d1.U, other, wit0, d1.Nonce2, c.blind)
				if err == nil {
					sm.Signature.KeyshareP = new(big.Int).Set(pk.R[i+1]) // R(signed) = R(expected) * R_i
					b, _ := json.Marshal(sm)
					m2devs["signed-other-attribute+KeyshareP-compensation"] = b
				}
				break
			}
		}
		for what, msg := range m2devs {
			if !rejectAtUser(what, run.builder, msg, run.inAttrs) {
				return
			}
		}
		if err2 == nil {
			if !rejectAtUser("message-from-other-run", run.builder, run2.msg2, run.inAttrs) {
				return
			}
		}
		// attribute list presented by the user differs from what was signed
		for i, a := range run.inAttrs {
			if a == nil {
				continue
			}
			chg := append([]*big.Int{}, run.inAttrs...)
			chg[i] = new(big.Int).Add(expOf(a, pk.Params.Lm), bi(1))
			if expOf(chg[i], pk.Params.Lm).Cmp(expOf(a, pk.Params.Lm)) != 0 && !(c.witness && i == len(run.inAttrs)-1) {
				if !rejectAtUser(fmt.Sprintf("user-attribute[%d]+1", i+1), run.builder, run.msg2, chg) {
					return
				}
				break
			}
		}
		// issuer acts on an altered first message: n_2 or U changed in transit, or builder made with
		// another nonce2 / context than the issuer uses
		iss := NewIssuer(c.kp.Sk, pk, c.ctx)
		var wit *revocation.Witness
		if c.witness {
			wit = m2.NonRevocationWitness
		}
		var dm1 IssueCommitmentMessage
		_ = json.Unmarshal(run.msg1, &dm1)
		viaIssuer := func(what string, U, nonce2 *big.Int, issuer *Issuer) bool {
			sm, err := issuer.IssueSignature(U, append([]*big.Int{}, run.inAttrs...), wit, nonce2, c.blind)
			if err != nil {
				rec.Case("issuer/"+what+"(refused)", true, "is|"+cfgClass+"|"+what)
				return true
			}
			b, _ := json.Marshal(sm)
			return rejectAtUser(what, run.builder, b, run.inAttrs)
		}
		if !viaIssuer("msg1.n_2+1", dm1.U, new(big.Int).Add(dm1.Nonce2, bi(1)), iss) ||
			!viaIssuer("msg1.n_2-1", dm1.U, new(big.Int).Abs(new(big.Int).Sub(dm1.Nonce2, bi(1))), iss) ||
			!viaIssuer("msg1.n_2*2", dm1.U, new(big.Int).Lsh(dm1.Nonce2, 1), iss) ||
			!viaIssuer("msg1.U*S", new(big.Int).Mod(new(big.Int).Mul(dm1.U, pk.S), pk.N), dm1.Nonce2, iss) ||
			!viaIssuer("msg1.U*R0", new(big.Int).Mod(new(big.Int).Mul(dm1.U, pk.R[0]), pk.N), dm1.Nonce2, iss) ||
			!viaIssuer("issuer-other-context", dm1.U, dm1.Nonce2, NewIssuer(c.kp.Sk, pk, new(big.Int).Add(c.ctx, bi(1)))) {
			return
		}
		// control: the unaltered second message is still accepted by the same builder after all
		// the failed attempts (a failed attempt must not corrupt the builder either)
		cr, psig, err := c06Construct(run.builder, run.msg2, run.inAttrs)
		if psig != "" || err != nil || cr == nil || !cr.Signature.Verify(pk, cr.Attributes) {
			rec.Fail(rt, "honest-message-rejected-after-failed-attempts", det(fmt.Sprint(psig, err)))
			return
		}
		rec.Control(true, "")
	})
}

func stripDigits(s string) string {
	out := make([]byte, 0, len(s))
	for i := 0; i < len(s); i++ {
		if s[i] < '0' || s[i] > '9' {
			out = append(out, s[i])
		}
	}
	return string(out)
}

// TestVF_C06_CommitmentAccess: in a combined session (disclosure proofs and one or several issuance
// commitments in one list) the issuer picks the commitment proofs out of the list by position among the
// commitment proofs; the k-th one it gets must be the k-th one the holder made, whatever else is in the list.
func TestVF_C06_CommitmentAccess(t *testing.T) {
	rec := vfh.New(t, "C06")
	defer rec.Flush()
	rec.Check(func(rt *rapid.T) {
		drawLibSeed(t, rt)
		s := &c02Session{worlds: map[int]*revWorld{}, secret: genSecret(rt, "secret"), keys: []*vfk.KeyPair{getKey("toyrev", rapid.IntRange(0, 7).Draw(rt, "key"))}}
		n := rapid.IntRange(1, 5).Draw(rt, "n")
		for i := 0; i < n; i++ {
			s.members = append(s.members, c02Member{kind: rapid.SampledFrom([]string{"disc", "issue", "issue+blind", "disc+range", "issue"}).Draw(rt, fmt.Sprintf("kind%d", i)), key: 0})
		}
		ctx, nonce := bi(int64(rapid.IntRange(1, 1000).Draw(rt, "ctx"))), bi(int64(rapid.IntRange(1, 1<<30).Draw(rt, "nonce")))
		pl, err := s.build(ctx, nonce, false)
		if err != nil {
			rec.Fail(rt, "honest-list-build-error", map[string]any{"session": s.String(), "err": err.Error()})
			return
		}
		var want []*ProofU
		for _, p := range pl {
			if u, ok := p.(*ProofU); ok {
				want = append(want, u)
			}
		}
		mixed := len(want) > 0 && len(want) < len(pl)
		rec.Case(fmt.Sprintf("commitment-access/commitments=%d/of=%d", len(want), len(pl)), mixed, "ca|"+s.String())
		det := map[string]any{"session": s.String()}
		for k := 0; k <= len(want); k++ {
			var got *ProofU
			var gerr error
			if ps := vfh.Guard(func() { got, gerr = pl.GetProofU(k) }); ps != "" {
				rec.Fail(rt, ps+":GetProofU", det)
				return
			}
			if k < len(want) {
				if gerr != nil || got != want[k] {
					det["k"] = k
					rec.Fail(rt, "commitment-proof-picked-from-list-is-not-the-holders-kth", det)
					return
				}
			} else if gerr == nil {
				det["k"] = k
				rec.Fail(rt, "commitment-proof-returned-beyond-the-last", det)
				return
			}
		}
		first, ferr := pl.GetFirstProofU()
		if (len(want) == 0) != (ferr != nil) || (len(want) > 0 && first != want[0]) {
			rec.Fail(rt, "first-commitment-proof-wrong", det)
		}
	})
}

// TestVF_C06_LegacyKeyshare: the honest run with a keyshare contribution through the OLDER keyshare
// exchange (the server answers with (P, c, s_response); the holder removes P from its commitment proof
// and merges the server's proof): it must end with a credential over (user secret, attributes), and the
// commitment that is sent and signed must be the one the commitment proof is about.
func TestVF_C06_LegacyKeyshare(t *testing.T) {
	rec := vfh.New(t, "C06")
	defer rec.Flush()
	rec.Check(func(rt *rapid.T) {
		drawLibSeed(t, rt)
		kp := getKey("k1024", rapid.IntRange(0, 2).Draw(rt, "key"))
		pk := kp.Pk
		n := rapid.IntRange(1, 5).Draw(rt, "n")
		var attrs []*big.Int
		var blind []int
		for i := 0; i < n; i++ {
			v, _ := genAttr(rt, fmt.Sprintf("a%d", i), pk.Params.Lm)
			attrs = append(attrs, v)
			if rapid.IntRange(0, 3).Draw(rt, fmt.Sprintf("blind%d", i)) == 0 {
				blind = append(blind, i)
			}
		}
		in := append([]*big.Int{}, attrs...)
		for _, j := range blind {
			in[j] = nil
		}
		ctx := new(big.Int).SetBytes(rapid.SliceOfN(rapid.Byte(), 1, 32).Draw(rt, "ctx"))
		nonce1 := new(big.Int).SetBytes(rapid.SliceOfN(rapid.Byte(), 1, 10).Draw(rt, "n1"))
		nonce2 := new(big.Int).SetBytes(rapid.SliceOfN(rapid.Byte(), 1, 10).Draw(rt, "n2"))
		secret, kss := genSecret(rt, "secret"), genSecret(rt, "kss")
		det := map[string]any{"key": kp.Name, "attributes": n, "blind": blind}
		rec.Case(fmt.Sprintf("legacy-keyshare/blind=%d", len(blind)), true, fmt.Sprintf("lk|%s|%v|%v|%s", kp.Name, attrs, blind, ctx))
		var cred *Credential
		var msgU, proofUU *big.Int
		var stage string
		var err error
		ps := vfh.Guard(func() {
			stage = "builder"
			var cb *CredentialBuilder
			if cb, err = NewCredentialBuilder(pk, ctx, secret, nonce2, keyshareP(kss, pk), blind); err != nil {
				return
			}
			stage = "keyshare-commitments"
			rnd, comms, e := NewKeyshareCommitments(kss, []*gabikeys.PublicKey{pk})
			if err = e; err != nil {
				return
			}
			cb.SetProofPCommitment(comms[0])
			bl := ProofBuilderList{cb}
			stage = "challenge"
			challenge, e := bl.Challenge(ctx, nonce1, false)
			if err = e; err != nil {
				return
			}
			stage = "proofs"
			proofs, e := bl.BuildDistributedProofList(challenge, nil)
			if err = e; err != nil {
				return
			}
			stage = "merge"
			pp := KeyshareResponseLegacy(kss, rnd, challenge, pk)
			pu := proofs[0].(*ProofU)
			pu.RemoveKeyshareP(cb)
			pu.MergeProofP(pp, pk)
			msg := cb.CreateIssueCommitmentMessage(proofs)
			msgU, proofUU = msg.U, pu.U
			stage = "issuer-verifies"
			if !msg.Proofs.Verify([]*gabikeys.PublicKey{pk}, ctx, nonce1, false, nil) {
				err = fmt.Errorf("honest commitment proof does not verify")
				return
			}
			stage = "issue"
			ism, e := NewIssuer(kp.Sk, pk, ctx).IssueSignature(msg.U, append([]*big.Int{}, in...), nil, msg.Nonce2, blind)
			if err = e; err != nil {
				return
			}
			stage = "construct"
			cred, err = cb.ConstructCredential(ism, append([]*big.Int{}, in...))
		})
		if ps != "" {
			rec.Fail(rt, ps+":legacy-keyshare:"+stage, det)
			return
		}
		if err != nil {
			det["err"], det["stage"] = err.Error(), stage
			rec.Fail(rt, "honest-legacy-keyshare-issuance-fails:"+stage, det)
			return
		}
		if msgU.Cmp(proofUU) != 0 {
			rec.Fail(rt, "commitment-sent-differs-from-the-one-proven", det)
			return
		}
		if cred == nil || !cred.Signature.Verify(pk, cred.Attributes) || cred.Attributes[0].Cmp(secret) != 0 {
			rec.Fail(rt, "honest-credential-signature-invalid:legacy-keyshare", det)
		}
	})
}
