package gabi

// C01 - Disclosed attribute values are authentic.
// Oracle: ground truth. The harness plays issuer, so after an ACCEPT verdict it checks that
// every reported value is the signed one (as exponents), that no index is both disclosed and
// hidden, and that all range-limited responses are inside their interval. Equation-valid
// forgeries come from advBuilder (split, order shifts); honest proofs and null-deviation
// controls must be accepted, in-range order shifts must be accepted too (two-directional).

import (
	"fmt"
	"testing"

	"github.com/privacybydesign/gabi/big"
	"github.com/privacybydesign/gabi/gabikeys"
	"github.com/privacybydesign/gabi/internal/vfh"
	"github.com/privacybydesign/gabi/internal/vfk"
	"pgregory.net/rapid"
)

// c01Oracle returns "" if an accepted proof is consistent with the ground truth ms.
func c01Oracle(p *ProofD, ms []*big.Int, pk *gabikeys.PublicKey) string {
	lm := pk.Params.Lm
	for i, v := range p.ADisclosed {
		if i < 0 || i >= len(ms) {
			if v.Sign() != 0 {
				return "accepted-proof-discloses-nonexistent-index"
			}
			continue
		}
		if expOf(v, lm).Cmp(expOf(ms[i], lm)) != 0 {
			return "accepted-proof-reports-unsigned-value"
		}
		if _, both := p.AResponses[i]; both {
			return "accepted-proof-index-both-disclosed-and-hidden"
		}
	}
	for i := range p.AResponses {
		if _, both := p.ADisclosed[i]; both {
			return "accepted-proof-index-both-disclosed-and-hidden"
		}
	}
	maxA := new(big.Int).Sub(pow2(pk.Params.LmCommit+1), bi(1))
	for _, r := range p.AResponses {
		if r.Sign() < 0 || r.Cmp(maxA) > 0 {
			return "accepted-proof-hidden-response-out-of-range"
		}
	}
	maxE := new(big.Int).Sub(pow2(pk.Params.LeCommit+1), bi(1))
	if p.EResponse.Sign() < 0 || p.EResponse.Cmp(maxE) > 0 {
		return "accepted-proof-e-response-out-of-range"
	}
	return ""
}

type c01Case struct {
	kp      *vfk.KeyPair
	cred    *Credential
	classes []string
	D       []int
	ctx     *big.Int
	nonce   *big.Int
	issig   bool
}

func (c *c01Case) detail(extra map[string]any) map[string]any {
	ms := make([]string, len(c.cred.Attributes))
	for i, m := range c.cred.Attributes {
		ms[i] = bstr(m)
	}
	d := map[string]any{"key": c.kp.Name, "attrs": ms, "classes": c.classes, "disclose": c.D, "issig": c.issig}
	for k, v := range extra {
		d[k] = v
	}
	return d
}

// verdicts of both entry points; they must agree
func c01Verify(c *c01Case, p *ProofD) (accept bool, disagree bool, panicSig string) {
	var a1, a2 bool
	panicSig = vfh.Guard(func() {
		a1 = p.Verify(c.kp.Pk, c.ctx, c.nonce, c.issig)
		a2 = ProofList{p}.Verify(keys1(c.kp), c.ctx, c.nonce, c.issig, nil)
	})
	return a1 || a2, a1 != a2, panicSig
}

func genC01Case(t *testing.T, rt *rapid.T) *c01Case {
	drawLibSeed(t, rt)
	kp := drawKey(rt, false, true)
	n := rapid.IntRange(1, len(kp.Pk.R)-1).Draw(rt, "n") // up to every base of the key
	attrs := make([]*big.Int, n)
	classes := make([]string, n)
	for i := range attrs {
		attrs[i], classes[i] = genAttr(rt, fmt.Sprintf("a%d", i), kp.Pk.Params.Lm)
	}
	cred, err := issueDirect(kp, genSecret(rt, "secret"), attrs)
	if err != nil {
		rt.Fatalf("issueDirect: %v", err)
	}
	var D []int
	for i := 1; i <= n; i++ {
		if rapid.Bool().Draw(rt, fmt.Sprintf("d%d", i)) {
			D = append(D, i)
		}
	}
	return &c01Case{kp: kp, cred: cred, classes: classes, D: D,
		ctx:   new(big.Int).SetBytes(rapid.SliceOfN(rapid.Byte(), 1, 32).Draw(rt, "ctx")),
		nonce: new(big.Int).SetBytes(rapid.SliceOfN(rapid.Byte(), 1, 16).Draw(rt, "nonce")),
		issig: rapid.Bool().Draw(rt, "issig")}
}

func (c *c01Case) hiddenOf(D []int) []int {
	in := map[int]bool{}
	for _, d := range D {
		in[d] = true
	}
	var h []int
	for i := range c.cred.Attributes {
		if !in[i] {
			h = append(h, i)
		}
	}
	return h
}

func (c *c01Case) advProof(b *advBuilder) (*ProofD, error) {
	pl, err := ProofBuilderList{b}.BuildProofList(c.ctx, c.nonce, c.issig)
	if err != nil {
		return nil, err
	}
	return pl[0].(*ProofD), nil
}

func TestVF_C01(t *testing.T) {
	rec := vfh.New(t, "C01")
	defer rec.Flush()
	rec.Check(func(rt *rapid.T) {
		c := genC01Case(t, rt)
		pk := c.kp.Pk
		ms := c.cred.Attributes
		lm := pk.Params.Lm
		fpBase := fmt.Sprintf("%s|%v|%v|%v", c.kp.Name, c.classes, c.D, c.issig)

		// judge presents a proof and applies the oracle; expect: "accept", "reject", "any"
		judge := func(family, param string, p *ProofD, expect string, nontrivial bool) bool {
			acc, disagree, psig := c01Verify(c, p)
			rec.Case(family, nontrivial, fpBase+"|"+family+"|"+param)
			d := func() map[string]any { return c.detail(map[string]any{"family": family, "param": param}) }
			if psig != "" {
				// panics on malformed input belong to C08; here every presented proof is well formed
				return rec.Fail(rt, psig, d())
			}
			if disagree {
				return rec.Fail(rt, "ProofD.Verify-and-ProofList.Verify-disagree:"+family, d())
			}
			if acc {
				if v := c01Oracle(p, ms, pk); v != "" {
					return rec.Fail(rt, v+":"+family, d())
				}
				if expect == "reject" {
					return rec.Fail(rt, "altered-proof-accepted:"+family, d())
				}
			} else if expect == "accept" {
				return rec.Fail(rt, "valid-proof-rejected:"+family, d())
			}
			return true
		}

		// ---- honest proof by the library's prover
		var honest *ProofD
		var err error
		if c.issig {
			b, e2 := c.cred.CreateDisclosureProofBuilder(c.D, nil, false)
			if e2 != nil {
				rec.Fail(rt, "honest-builder-error", c.detail(map[string]any{"err": e2.Error()}))
				return
			}
			pl, e3 := ProofBuilderList{b}.BuildProofList(c.ctx, c.nonce, true)
			err = e3
			if e3 == nil {
				honest = pl[0].(*ProofD)
			}
		} else {
			honest, err = c.cred.CreateDisclosureProof(c.D, nil, false, c.ctx, c.nonce)
		}
		if err != nil {
			rec.Fail(rt, "honest-proof-error", c.detail(map[string]any{"err": err.Error()}))
			return
		}
		rec.Sample(func() any { return c.detail(map[string]any{"kind": "credential+disclosure set"}) })
		if !judge("honest", "", honest, "accept", len(c.D) > 0) {
			return
		}

		// ---- control: harness prover with null deviation
		ctl, err := newAdvBuilder(c.kp, c.cred, c.hiddenOf(c.D), discMap(ms, c.D))
		if err != nil {
			rt.Fatalf("adv: %v", err)
		}
		pc, err := c.advProof(ctl)
		if err != nil || pc == nil {
			rec.Control(false, fmt.Sprintf("adversarial prover failed: %v", err))
			return
		}
		acc, _, _ := c01Verify(c, pc)
		rec.Control(acc, "null-deviation proof of the harness prover rejected")
		if !acc {
			return
		}

		// ---- F1: single and pairwise alterations of the honest proof
		type alter struct {
			name string
			f    func(p *ProofD) bool // returns false if not applicable
		}
		hidden := sortedKeys(honest.AResponses)
		var alts []alter
		addInt := func(name string, get func(p *ProofD) *big.Int) {
			alts = append(alts,
				alter{name + "+1", func(p *ProofD) bool {
					v := get(p)
					if v == nil {
						return false
					}
					v.Add(v, bi(1))
					return true
				}},
				alter{name + "-1", func(p *ProofD) bool {
					v := get(p)
					if v == nil || v.Sign() == 0 {
						return false
					}
					v.Sub(v, bi(1))
					return true
				}},
				alter{name + "^bit", func(p *ProofD) bool {
					v := get(p)
					if v == nil {
						return false
					}
					k := 0
					if v.BitLen() > 2 {
						k = v.BitLen() / 2
					}
					v.Xor(v, pow2(uint(k)))
					return true
				}})
		}
		addInt("C", func(p *ProofD) *big.Int { return p.C })
		addInt("A", func(p *ProofD) *big.Int { return p.A })
		addInt("e_response", func(p *ProofD) *big.Int { return p.EResponse })
		addInt("v_response", func(p *ProofD) *big.Int { return p.VResponse })
		for _, i := range hidden {
			i := i
			addInt(fmt.Sprintf("a_response[%d]", i), func(p *ProofD) *big.Int { return p.AResponses[i] })
		}
		for _, i := range c.D {
			i := i
			if ms[i].BitLen() < int(lm) { // +-1 / bit flip then certainly changes the exponent
				addInt(fmt.Sprintf("a_disclosed[%d]", i), func(p *ProofD) *big.Int { return p.ADisclosed[i] })
			} else {
				alts = append(alts, alter{fmt.Sprintf("a_disclosed[%d]:=7", i), func(p *ProofD) bool { p.ADisclosed[i].SetInt64(7); return true }})
			}
		}
		// the disclosed value shifted by a multiple of the group's exponent 2p'q' (known to this holder):
		// R_i^(m - 2p'q') = R_i^m, so the equation still holds while another (here: negative, hence
		// only presentable in memory) value is reported
		for _, i := range c.D {
			i := i
			if ms[i].BitLen() > int(lm) {
				continue
			}
			for _, k := range []int64{-2, -4, 2} {
				k := k
				alts = append(alts, alter{fmt.Sprintf("a_disclosed[%d]%+d*ord", i, k), func(p *ProofD) bool {
					if p.ADisclosed[i] == nil {
						return false
					}
					p.ADisclosed[i] = new(big.Int).Add(p.ADisclosed[i], new(big.Int).Mul(bi(k), c.kp.Sk.Order))
					return true
				}})
			}
		}
		if len(c.D) >= 2 {
			i, j := c.D[0], c.D[len(c.D)-1]
			if expOf(ms[i], lm).Cmp(expOf(ms[j], lm)) != 0 {
				alts = append(alts, alter{"a_disclosed-swapped", func(p *ProofD) bool {
					if p.ADisclosed[i] == nil || p.ADisclosed[j] == nil {
						return false
					}
					p.ADisclosed[i], p.ADisclosed[j] = p.ADisclosed[j], p.ADisclosed[i]
					return true
				}})
			}
		}
		if len(c.D) >= 1 && len(ms) < len(pk.R) {
			i := c.D[0]
			if expOf(ms[i], lm).Sign() != 0 {
				alts = append(alts, alter{"a_disclosed-moved-to-unused-index", func(p *ProofD) bool {
					if p.ADisclosed[i] == nil {
						return false
					}
					p.ADisclosed[len(ms)] = p.ADisclosed[i]
					delete(p.ADisclosed, i)
					return true
				}})
			}
		}
		if len(hidden) >= 2 {
			i, j := hidden[0], hidden[len(hidden)-1]
			alts = append(alts, alter{"a_responses-swapped", func(p *ProofD) bool {
				if p.AResponses[i] == nil || p.AResponses[j] == nil || p.AResponses[i].Cmp(p.AResponses[j]) == 0 {
					return false
				}
				p.AResponses[i], p.AResponses[j] = p.AResponses[j], p.AResponses[i]
				return true
			}})
		}
		// hidden attribute presented as disclosed with a wrong value and vice versa
		if len(hidden) >= 2 {
			i := hidden[len(hidden)-1]
			alts = append(alts, alter{"hidden-response-dropped-value-claimed", func(p *ProofD) bool {
				if p.AResponses[i] == nil {
					return false
				}
				delete(p.AResponses, i)
				p.ADisclosed[i] = new(big.Int).Add(expOf(ms[i], lm), bi(1))
				return true
			}})
		}
		nSingle := len(alts)
		pick := rapid.IntRange(0, nSingle-1)
		for k, a := range alts {
			if !rec.Thorough() && k%3 != int(c.nonce.Int64()%3+3)%3 && nSingle > 12 {
				continue // quick tier: a third of the singles per case (rotating), all in thorough
			}
			p := copyProofD(honest)
			if !a.f(p) {
				continue
			}
			if !judge("F1-single", a.name, p, "reject", true) {
				return
			}
			// the same alteration made in place on an object that has already been verified
			// successfully (what verification derived from the proof must not outlive its data)
			p2 := copyProofD(honest)
			if acc, _, _ := c01Verify(c, p2); acc && a.f(p2) {
				if !judge("F1-single-after-verification", a.name, p2, "reject", true) {
					return
				}
			}
		}
		for k := 0; k < rec.N(3, 8); k++ {
			x, y := pick.Draw(rt, "pa"), pick.Draw(rt, "pb")
			if x == y {
				continue
			}
			p := copyProofD(honest)
			var ok1, ok2 bool
			// the second alteration may not be applicable to what the first left (a field it
			// edits was removed): such a pair is skipped, it is not a presented proof
			if func() (inapplicable bool) {
				defer func() {
					if recover() != nil {
						inapplicable = true
					}
				}()
				ok1 = alts[x].f(p)
				ok2 = alts[y].f(p)
				return false
			}() {
				rec.Class("F1-pair-inapplicable", 1)
				continue
			}
			if (!ok1 && !ok2) || sameProofD(p, honest) {
				continue // e.g. C+1 followed by C-1: not an alteration
			}
			if !judge("F1-pair", alts[x].name+"&"+alts[y].name, p, "reject", true) {
				return
			}
		}

		// ---- F2: split an attribute into a disclosed part x and a hidden remainder
		splitIdx := rapid.IntRange(0, len(ms)-1).Draw(rt, "splitIdx")
		m := expOf(ms[splitIdx], lm)
		xs := map[string]*big.Int{
			"x=0": bi(0), "x=1": bi(1),
			"x=m+1":       new(big.Int).Add(m, bi(1)),
			"x=2m":        new(big.Int).Lsh(m, 1),
			"x=2^Lm-1":    new(big.Int).Sub(pow2(lm), bi(1)),
			"x=random":    new(big.Int).SetBytes(rapid.SliceOfN(rapid.Byte(), 1, 32).Draw(rt, "xr")),
			"x=oversized": new(big.Int).SetBytes(append([]byte{1}, rapid.SliceOfN(rapid.Byte(), 33, 40).Draw(rt, "xo")...)),
		}
		if m.Sign() > 0 {
			xs["x=m-1"] = new(big.Int).Sub(m, bi(1))
		}
		for _, name := range []string{"x=0", "x=1", "x=m-1", "x=m+1", "x=2m", "x=2^Lm-1", "x=random", "x=oversized"} {
			x, ok := xs[name]
			if !ok {
				continue
			}
			// split index is reported as disclosed AND keeps a response; other indices as chosen
			disc := discMap(ms, c.D)
			disc[splitIdx] = x
			hid := c.hiddenOf(c.D)
			if !contains(hid, splitIdx) {
				hid = append(hid, splitIdx)
			}
			b, err := newAdvBuilder(c.kp, c.cred, hid, disc)
			if err != nil {
				rt.Fatalf("adv: %v", err)
			}
			p, err := c.advProof(b)
			if err != nil || b.negative {
				rec.Class("F2-skipped-negative-response", 1)
				continue
			}
			exp := "any"
			if expOf(x, lm).Cmp(m) == 0 {
				exp = "any" // disclosing the true value with a zero remainder is still "both" -> oracle decides
			}
			if !judge("F2-split", fmt.Sprintf("idx%s|%s", idxClass(splitIdx), name), p, exp, true) {
				return
			}
		}

		// ---- F3: responses shifted by k*ord across the accept/reject boundary
		ord := c.kp.Sk.Order
		target := rapid.IntRange(-1, len(hidden)-1).Draw(rt, "shiftTarget") // -1 = e response
		var cur, max *big.Int
		if target < 0 {
			cur, max = pc.EResponse, new(big.Int).Sub(pow2(pk.Params.LeCommit+1), bi(1))
		} else {
			cur, max = pc.AResponses[hidden[target]], new(big.Int).Sub(pow2(pk.Params.LmCommit+1), bi(1))
		}
		kIn := new(big.Int).Sub(max, cur)
		kIn.Div(kIn, ord) // largest k with cur + k*ord <= max (cur is from the control proof: same distribution)
		for _, dk := range []int64{-1, 0, 1, 2} {
			for _, base := range []string{"boundary", "low"} {
				k := new(big.Int)
				if base == "boundary" {
					k.Add(kIn, bi(dk))
				} else {
					k.SetInt64(dk + 1)
				}
				if base == "low" && dk == -1 {
					// shift below zero: equation-valid, response negative (only presentable
					// in memory; the text encodings cannot carry it) - must be rejected
					k.Div(cur, ord).Add(k, bi(1)).Neg(k)
				}
				if k.Sign() == 0 || (k.Sign() < 0 && !(base == "low" && dk == -1)) {
					continue
				}
				b, err := newAdvBuilder(c.kp, c.cred, c.hiddenOf(c.D), discMap(ms, c.D))
				if err != nil {
					rt.Fatalf("adv: %v", err)
				}
				sh := new(big.Int).Mul(k, ord)
				if target < 0 {
					b.shiftE = sh
				} else {
					b.shiftA[hidden[target]] = sh
				}
				p, err := c.advProof(b)
				if err != nil || (b.negative && k.Sign() > 0) {
					continue
				}
				// expectation from the actual response values of this proof
				inRange := p.EResponse.Cmp(new(big.Int).Sub(pow2(pk.Params.LeCommit+1), bi(1))) <= 0
				maxA := new(big.Int).Sub(pow2(pk.Params.LmCommit+1), bi(1))
				for _, r := range p.AResponses {
					if r.Cmp(maxA) > 0 || r.Sign() < 0 {
						inRange = false
					}
				}
				if p.EResponse.Sign() < 0 {
					inRange = false
				}
				exp, cls := "reject", "outside"
				if inRange {
					exp, cls = "accept", "inside"
				}
				tn := "e"
				if target >= 0 {
					tn = "a" + idxClass(hidden[target])
				}
				if !judge("F3-ordershift-"+cls, fmt.Sprintf("%s|%s%+d", tn, base, dk), p, exp, true) {
					return
				}
			}
		}
	})
}

func idxClass(i int) string {
	if i == 0 {
		return "0(secret)"
	}
	return fmt.Sprint(i)
}

func contains(l []int, x int) bool {
	for _, v := range l {
		if v == x {
			return true
		}
	}
	return false
}

func discMap(ms []*big.Int, D []int) map[int]*big.Int {
	m := map[int]*big.Int{}
	for _, i := range D {
		m[i] = new(big.Int).Set(ms[i])
	}
	return m
}

func sameProofD(a, b *ProofD) bool {
	if a.C.Cmp(b.C) != 0 || a.A.Cmp(b.A) != 0 || a.EResponse.Cmp(b.EResponse) != 0 || a.VResponse.Cmp(b.VResponse) != 0 ||
		len(a.AResponses) != len(b.AResponses) || len(a.ADisclosed) != len(b.ADisclosed) {
		return false
	}
	for k, v := range a.AResponses {
		if w, ok := b.AResponses[k]; !ok || w.Cmp(v) != 0 {
			return false
		}
	}
	for k, v := range a.ADisclosed {
		if w, ok := b.ADisclosed[k]; !ok || w.Cmp(v) != 0 {
			return false
		}
	}
	return true
}
