package gabi

// C18 (d) - protocol messages survive JSON / CBOR round trips with unchanged meaning: a re-read
// proof list, signature, witness, update or event list verifies exactly as the original did
// (valid ones stay accepted, invalid ones stay rejected) and re-marshalling is a fixpoint.

import (
	"bytes"
	"encoding/json"
	"fmt"
	"testing"

	"github.com/fxamacker/cbor"
	"github.com/privacybydesign/gabi/big"
	"github.com/privacybydesign/gabi/internal/vfh"
	"github.com/privacybydesign/gabi/revocation"
	"pgregory.net/rapid"
)

func TestVF_C18_Messages(t *testing.T) {
	rec := vfh.New(t, "C18")
	defer rec.Flush()
	rec.Check(func(rt *rapid.T) {
		drawLibSeed(t, rt)
		fail := func(sig string, what any) { rec.Fail(rt, sig, map[string]any{"what": what}) }

		// ---- proof lists / issue commitment messages of every shape
		seed, err := c08DrawSeed(t, rt)
		if err != nil {
			fail("seed-build-error", err.Error())
			return
		}
		rec.Case("message/prooflist", true, "pl|"+seed.name+string(seed.doc[:40]))
		rec.Sample(func() any { return map[string]any{"kind": "message round trip", "message": seed.name} })
		var first, second ProofList
		var m1, m2 IssueCommitmentMessage
		decode := func(doc []byte, pl *ProofList, m *IssueCommitmentMessage) error {
			if seed.isMsg {
				if err := json.Unmarshal(doc, m); err != nil {
					return err
				}
				*pl = m.Proofs
				return nil
			}
			return json.Unmarshal(doc, pl)
		}
		if err := decode(seed.doc, &first, &m1); err != nil {
			fail("valid-message-does-not-decode", err.Error())
			return
		}
		var re1 []byte
		if seed.isMsg {
			re1, err = json.Marshal(&m1)
		} else {
			re1, err = json.Marshal(first)
		}
		if err != nil {
			fail("decoded-message-does-not-marshal", err.Error())
			return
		}
		if err := decode(re1, &second, &m2); err != nil {
			fail("re-marshalled-message-does-not-decode", err.Error())
			return
		}
		var re2 []byte
		if seed.isMsg {
			re2, _ = json.Marshal(&m2)
		} else {
			re2, _ = json.Marshal(second)
		}
		if !bytes.Equal(re1, re2) {
			fail("re-marshalling-is-not-a-fixpoint", seed.name)
			return
		}
		// decoding into a destination that already holds an earlier message replaces its content, as for
		// every other slice or struct: the re-read message means what was sent, not more
		{
			var reusedL ProofList
			var reusedM IssueCommitmentMessage
			if err := decode(seed.doc, &reusedL, &reusedM); err == nil {
				if err := decode(re1, &reusedL, &reusedM); err != nil {
					fail("re-marshalled-message-does-not-decode:into-used-destination", err.Error())
					return
				}
				var re3 []byte
				if seed.isMsg {
					re3, _ = json.Marshal(&reusedM)
				} else {
					re3, _ = json.Marshal(reusedL)
				}
				if !bytes.Equal(re1, re3) {
					fail("message-decoded-into-used-destination-differs", seed.name)
					return
				}
			}
		}
		okOrig := second.Verify(seed.pks, seed.ctx, seed.nonce, seed.issig, nil)
		if !okOrig && !anyC11Ambiguous(second) {
			fail("re-read-proof-list-rejected", seed.name)
			return
		} else if !okOrig {
			rec.Violation("honest-nonrev-proof-rejected:other-hidden-response-below-2^580", seed.name)
		}
		var third ProofList
		var m3 IssueCommitmentMessage
		_ = decode(re1, &third, &m3)
		if third.Verify(seed.pks, seed.ctx, new(big.Int).Add(seed.nonce, bi(1)), seed.issig, nil) {
			fail("re-read-proof-list-accepted-for-other-nonce", seed.name)
			return
		}

		// ---- CL signature, ProofP
		kp := drawKey(rt, true, true)
		ms := []*big.Int{genSecret(rt, "s"), bi(int64(rapid.IntRange(0, 1<<30).Draw(rt, "m1")))}
		sig, err := SignMessageBlock(kp.Sk, kp.Pk, ms)
		if err != nil {
			fail("sign-error", err.Error())
			return
		}
		if rapid.Bool().Draw(rt, "randomize") {
			// a randomised signature is a proof-internal object whose V may be negative (not
			// serialisable, and never serialised by the library); keep it only if V >= 0
			if r, err := sig.Randomize(kp.Pk); err == nil && r.V.Sign() >= 0 {
				sig = r
			}
		}
		js, err := json.Marshal(sig)
		rec.Case("message/CLSignature", true, "cl|"+string(js))
		var sb CLSignature
		if err != nil || json.Unmarshal(js, &sb) != nil || !sb.Verify(kp.Pk, ms) {
			fail("re-read-signature-does-not-verify", fmt.Sprintf("V negative: %v, err %v", sig.V.Sign() < 0, err))
			return
		}
		if sb.Verify(kp.Pk, []*big.Int{ms[0], new(big.Int).Add(ms[1], bi(1))}) {
			fail("re-read-signature-verifies-other-message", "")
			return
		}
		pp := &ProofP{C: bi(int64(rapid.IntRange(0, 1<<40).Draw(rt, "c"))), SResponse: genSecret(rt, "sr")}
		if rapid.Bool().Draw(rt, "withP") {
			pp.P = genSecret(rt, "P")
		}
		js, _ = json.Marshal(pp)
		var pb ProofP
		rec.Case("message/ProofP", true, "pp|"+string(js))
		if json.Unmarshal(js, &pb) != nil || pb.C.Cmp(pp.C) != 0 || pb.SResponse.Cmp(pp.SResponse) != 0 || (pp.P == nil) != (pb.P == nil) || (pp.P != nil && pb.P.Cmp(pp.P) != 0) {
			fail("ProofP-round-trip-changes-fields", string(js))
			return
		}

		// ---- witness, update, event list (JSON and CBOR)
		w, err := newRevWorld(kp)
		if err != nil {
			rt.Fatalf("world: %v", err)
		}
		wit, _ := w.newWitness()
		nrev := rapid.IntRange(0, 4).Draw(rt, "nrev")
		for i := 0; i < nrev; i++ {
			o, _ := w.newWitness()
			if _, err := w.revoke(o.E); err != nil {
				rt.Fatalf("revoke: %v", err)
			}
		}
		upd, err := w.updateFrom(uint64(rapid.IntRange(0, nrev).Draw(rt, "from")))
		if err != nil {
			rt.Fatalf("update: %v", err)
		}
		for _, enc := range []string{"json", "cbor"} {
			marshal := func(v any) ([]byte, error) {
				if enc == "json" {
					return json.Marshal(v)
				}
				return cbor.Marshal(v, cbor.EncOptions{})
			}
			unmarshal := func(b []byte, v any) error {
				if enc == "json" {
					return json.Unmarshal(b, v)
				}
				return cbor.Unmarshal(b, v)
			}
			// witness: valid stays valid, invalid stays invalid
			for _, valid := range []bool{true, false} {
				x := &revocation.Witness{U: new(big.Int).Set(wit.U), E: wit.E, SignedAccumulator: wit.SignedAccumulator}
				if !valid {
					x.U.Add(x.U, bi(1))
				}
				b, err := marshal(x)
				rec.Case(fmt.Sprintf("message/Witness/%s/valid=%v", enc, valid), true, fmt.Sprintf("w|%s|%v|%x", enc, valid, b[:min(24, len(b))]))
				var back revocation.Witness
				if err != nil || unmarshal(b, &back) != nil {
					fail("witness-round-trip-error:"+enc, fmt.Sprint(err))
					return
				}
				if back.SignedAccumulator == nil || back.U == nil || back.E == nil {
					fail("witness-round-trip-loses-fields:"+enc, "")
					return
				}
				got := back.Verify(kp.Pk) == nil
				if got != valid {
					fail(fmt.Sprintf("re-read-witness-verdict-%v-for-valid-%v:%s", got, valid, enc), "")
					return
				}
			}
			// update
			b, err := marshal(upd)
			rec.Case("message/Update/"+enc, true, fmt.Sprintf("u|%s|%x", enc, b[:min(24, len(b))]))
			var ub revocation.Update
			if err != nil || unmarshal(b, &ub) != nil {
				fail("update-round-trip-error:"+enc, fmt.Sprint(err))
				return
			}
			if _, err := ub.Verify(kp.Pk); err != nil {
				fail("re-read-update-rejected:"+enc, err.Error())
				return
			}
			if len(ub.Events) != len(upd.Events) {
				fail("update-round-trip-changes-events:"+enc, "")
				return
			}
			for i, e := range ub.Events {
				o := upd.Events[i]
				if e.Index != o.Index || e.E.Cmp(o.E) != 0 || !bytes.Equal(e.ParentHash, o.ParentHash) {
					fail("update-round-trip-changes-events:"+enc, fmt.Sprintf("event %d", i))
					return
				}
			}
			b2, _ := marshal(&ub)
			if !bytes.Equal(b, b2) {
				fail("update-re-marshalling-is-not-a-fixpoint:"+enc, "")
				return
			}
			// a re-read update applied to the witness behaves as the original
			wc := &revocation.Witness{U: new(big.Int).Set(wit.U), E: wit.E, SignedAccumulator: &revocation.SignedAccumulator{Data: wit.SignedAccumulator.Data, PKCounter: wit.SignedAccumulator.PKCounter}}
			if upd.Events[0].Index <= 1 {
				// a stored witness is verified when loaded (this also decodes its accumulator)
				if err := wc.Verify(kp.Pk); err != nil {
					fail("re-read-witness-rejected:"+enc, err.Error())
					return
				}
				if err := wc.Update(kp.Pk, &ub); err != nil || wc.Verify(kp.Pk) != nil {
					fail("re-read-update-does-not-update-witness:"+enc, fmt.Sprint(err))
					return
				}
			}
			// event list
			el := revocation.NewEventList(upd.Events...)
			b, err = marshal(el)
			var elb revocation.EventList
			rec.Case("message/EventList/"+enc, true, fmt.Sprintf("el|%s|%x", enc, b[:min(24, len(b))]))
			if err != nil || unmarshal(b, &elb) != nil || len(elb.Events) != len(upd.Events) {
				fail("event-list-round-trip-error:"+enc, fmt.Sprint(err))
				return
			}
			for i, e := range elb.Events {
				o := upd.Events[i]
				if e.Index != o.Index || e.E.Cmp(o.E) != 0 || !bytes.Equal(e.ParentHash, o.ParentHash) {
					fail("event-list-round-trip-changes-events:"+enc, fmt.Sprintf("event %d", i))
					return
				}
			}
		}
	})
}
