package vfh

// Independent reference of gabi's Fiat-Shamir hash: hand-written DER (no encoding/asn1) + SHA-256.

import (
	"crypto/sha256"
	"math/big"
)

func refDERLen(n int) []byte {
	if n < 128 {
		return []byte{byte(n)}
	}
	var b []byte
	for v := n; v > 0; v >>= 8 {
		b = append([]byte{byte(v & 0xff)}, b...)
	}
	return append([]byte{0x80 | byte(len(b))}, b...)
}

// RefDERInt encodes n as a DER INTEGER (two's complement, minimal length, computed arithmetically).
func RefDERInt(n *big.Int) []byte {
	var content []byte
	if n.Sign() >= 0 {
		content = n.Bytes()
		if len(content) == 0 {
			content = []byte{0}
		} else if content[0]&0x80 != 0 {
			content = append([]byte{0}, content...)
		}
	} else {
		L := 1
		for {
			lim := new(big.Int).Lsh(big.NewInt(1), uint(8*L-1))
			lim.Neg(lim)
			if n.Cmp(lim) >= 0 {
				break
			}
			L++
		}
		v := new(big.Int).Lsh(big.NewInt(1), uint(8*L))
		v.Add(v, n)
		raw := v.Bytes()
		content = make([]byte, L)
		copy(content[L-len(raw):], raw)
	}
	out := append([]byte{0x02}, refDERLen(len(content))...)
	return append(out, content...)
}

// RefHashCommitBytes: SEQUENCE { [BOOLEAN TRUE if issig], INTEGER count, INTEGER... }.
func RefHashCommitBytes(values []*big.Int, issig bool) []byte {
	var content []byte
	if issig {
		content = append(content, 0x01, 0x01, 0xff)
	}
	content = append(content, RefDERInt(big.NewInt(int64(len(values))))...)
	for _, v := range values {
		content = append(content, RefDERInt(v)...)
	}
	out := append([]byte{0x30}, refDERLen(len(content))...)
	return append(out, content...)
}

func RefHashCommit(values []*big.Int, issig bool) *big.Int {
	h := sha256.Sum256(RefHashCommitBytes(values, issig))
	return new(big.Int).SetBytes(h[:])
}
