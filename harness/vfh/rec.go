// Package vfh is the shared bookkeeping layer of the /verif harness: case counting,
// distinct-nontrivial fingerprints, samples, violation records, panic signatures.
// It depends on the standard library and rapid only, so that in-package harness tests of
// every gabi package can import it without cycles.
package vfh

import (
	"crypto/sha256"
	"encoding/binary"
	"encoding/json"
	"fmt"
	"os"
	"regexp"
	"runtime"
	"sort"
	"strconv"
	"strings"
	"sync"
	"testing"
	"time"

	"pgregory.net/rapid"
)

type Violation struct {
	Sig    string `json:"sig"`
	Detail any    `json:"detail,omitempty"`
	Count  int    `json:"count"`
}

type knownEntry struct {
	Status   string `json:"status"`
	Property string `json:"property"`
	Sig      string `json:"sig"`
	What     string `json:"what"`
	re       *regexp.Regexp
}

type Rec struct {
	mu sync.Mutex

	ID      string
	tier    string
	seed    int64
	shard   int
	nshards int
	out     string
	start   time.Time

	evals      int64
	nontrivial int64
	classes    map[string]int64
	fps        map[uint64]struct{}
	samples    []any
	sampleSeen int64
	notes      map[string]any

	violations map[string]*Violation
	vorder     []string
	knownHits  map[string]int64
	known      []knownEntry
	controlsOK int64
	controlBad []string
	exhaustive bool
	failed     bool
	t          *testing.T
}

func envInt(name string, def int64) int64 {
	if s := os.Getenv(name); s != "" {
		if v, err := strconv.ParseInt(s, 10, 64); err == nil {
			return v
		}
	}
	return def
}

// New creates the recorder for one test function of property id. Flush must be deferred.
func New(t *testing.T, id string) *Rec {
	r := &Rec{
		ID: id, t: t,
		tier:       os.Getenv("VF_TIER"),
		seed:       envInt("VF_SEED", 1),
		shard:      int(envInt("VF_SHARD", 0)),
		nshards:    int(envInt("VF_NSHARDS", 1)),
		out:        os.Getenv("VF_OUT"),
		start:      time.Now(),
		classes:    map[string]int64{},
		fps:        map[uint64]struct{}{},
		notes:      map[string]any{},
		violations: map[string]*Violation{},
		knownHits:  map[string]int64{},
	}
	if r.tier == "" {
		r.tier = "quick"
	}
	if r.nshards < 1 {
		r.nshards = 1
	}
	if p := os.Getenv("VF_KNOWN"); p != "" {
		if bts, err := os.ReadFile(p); err == nil {
			for _, line := range strings.Split(string(bts), "\n") {
				line = strings.TrimSpace(line)
				if line == "" || strings.HasPrefix(line, "#") {
					continue
				}
				var k knownEntry
				if json.Unmarshal([]byte(line), &k) != nil || k.Status != "known" || k.Property != id {
					continue
				}
				re, err := regexp.Compile("^(?:" + k.Sig + ")$")
				if err != nil {
					continue
				}
				k.re = re
				r.known = append(r.known, k)
			}
		}
	}
	return r
}

func (r *Rec) Thorough() bool { return r.tier == "thorough" }
func (r *Rec) Seed() int64    { return r.seed }
func (r *Rec) Shard() int     { return r.shard }
func (r *Rec) NShards() int   { return r.nshards }

// N picks a bound by tier.
func (r *Rec) N(quick, thorough int) int {
	if r.Thorough() {
		return thorough
	}
	return quick
}

// Mine reports whether item i of an enumerated space belongs to this shard.
func (r *Rec) Mine(i int) bool { return i%r.nshards == r.shard }

// Case counts one executed case. fp identifies the case for distinctness; only nontrivial
// cases enter the fingerprint set.
func (r *Rec) Case(class string, nontrivial bool, fp string) {
	r.mu.Lock()
	defer r.mu.Unlock()
	r.evals++
	r.classes[class]++
	if nontrivial {
		r.nontrivial++
		h := sha256.Sum256([]byte(fp))
		r.fps[binary.LittleEndian.Uint64(h[:8])] = struct{}{}
	}
}

// Class adds to a histogram bucket without counting an evaluation.
func (r *Rec) Class(class string, n int64) {
	r.mu.Lock()
	r.classes[class] += n
	r.mu.Unlock()
}

// Sample keeps the first 4 offered samples and then a sparse selection (8 max).
func (r *Rec) Sample(mk func() any) {
	r.mu.Lock()
	defer r.mu.Unlock()
	r.sampleSeen++
	n := r.sampleSeen
	if len(r.samples) < 4 {
		r.samples = append(r.samples, mk())
		return
	}
	// keep samples at exponentially growing positions so later cases are represented
	if n&(n-1) == 0 && n >= 64 {
		if len(r.samples) < 8 {
			r.samples = append(r.samples, mk())
		} else {
			r.samples[4+int(n%4)] = mk()
		}
	}
}

func (r *Rec) Note(key string, v any) {
	r.mu.Lock()
	r.notes[key] = v
	r.mu.Unlock()
}

func (r *Rec) SetExhaustive(b bool) { r.mu.Lock(); r.exhaustive = b; r.mu.Unlock() }

// Control records the outcome of a control case (null deviation must behave honestly).
func (r *Rec) Control(ok bool, what string) {
	r.mu.Lock()
	defer r.mu.Unlock()
	if ok {
		r.controlsOK++
	} else if len(r.controlBad) < 10 {
		r.controlBad = append(r.controlBad, what)
	}
}

// Violation records a violation with a root-cause signature. It returns true when the
// signature is listed as a known finding (then the caller must not fail the case).
func (r *Rec) Violation(sig string, detail any) (known bool) {
	r.mu.Lock()
	defer r.mu.Unlock()
	for _, k := range r.known {
		if k.re.MatchString(sig) {
			r.knownHits[k.Sig]++
			return true
		}
	}
	v, ok := r.violations[sig]
	if !ok {
		if len(r.vorder) >= 40 {
			return false
		}
		v = &Violation{Sig: sig}
		r.violations[sig] = v
		r.vorder = append(r.vorder, sig)
	}
	v.Count++
	v.Detail = detail // the last one recorded is the most shrunk one under rapid
	return false
}

// Fail records a violation and, unless it is a known finding, fails the rapid case so that
// rapid shrinks it. Returns true if the case may continue (known finding).
func (r *Rec) Fail(rt *rapid.T, sig string, detail any) bool {
	if r.Violation(sig, detail) {
		return true
	}
	rt.Fatalf("VF-VIOLATION %s: %v", sig, compact(detail))
	return false
}

// FailT is Fail for non-rapid (enumerating) checks: records, marks the test failed, continues.
func (r *Rec) FailT(sig string, detail any) {
	if r.Violation(sig, detail) {
		return
	}
	r.mu.Lock()
	r.failed = true
	r.mu.Unlock()
}

func compact(v any) string {
	b, err := json.Marshal(v)
	if err != nil {
		return fmt.Sprintf("%v", v)
	}
	if len(b) > 600 {
		return string(b[:600]) + "..."
	}
	return string(b)
}

// RapidSeedOK: rapid treats seed 0 as "random"; the driver never passes 0.

// Check runs prop under rapid with panic capture: a panic escaping the property (i.e. not
// expected by it) is recorded as a violation with a root-cause signature.
func (r *Rec) Check(prop func(rt *rapid.T)) {
	rapid.Check(r.t, func(rt *rapid.T) {
		defer func() {
			if e := recover(); e != nil {
				if isRapidInternal(e) {
					panic(e)
				}
				sig := "panic:" + PanicSite(2) + ":" + normMsg(e)
				if !r.Violation(sig, map[string]any{"panic": fmt.Sprint(e)}) {
					rt.Fatalf("VF-VIOLATION %s", sig)
				}
			}
		}()
		prop(rt)
	})
}

// rapid signals test failure / invalid data by panicking with its own private types; those
// must propagate untouched.
func isRapidInternal(e any) bool {
	s := fmt.Sprintf("%T", e)
	return strings.HasPrefix(s, "rapid.") || strings.HasPrefix(s, "*rapid.")
}

// Guard runs f under recover. It returns "" if f returned normally, else a panic signature.
func Guard(f func()) (sig string) {
	defer func() {
		if e := recover(); e != nil {
			if isRapidInternal(e) {
				panic(e)
			}
			sig = "panic:" + PanicSite(2) + ":" + normMsg(e)
		}
	}()
	f()
	return ""
}

var reNum = regexp.MustCompile(`[0-9]+`)
var reHex = regexp.MustCompile(`0x[0-9a-f]+`)

func normMsg(e any) string {
	s := fmt.Sprint(e)
	s = reHex.ReplaceAllString(s, "X")
	s = reNum.ReplaceAllString(s, "N")
	if len(s) > 80 {
		s = s[:80]
	}
	return s
}

// PanicSite returns the innermost non-harness frame inside the gabi module of the
// panicking goroutine (function name without the module prefix).
func PanicSite(skip int) string {
	pcs := make([]uintptr, 64)
	n := runtime.Callers(skip, pcs)
	frames := runtime.CallersFrames(pcs[:n])
	first := ""
	for {
		f, more := frames.Next()
		fn := f.Function
		if strings.Contains(fn, "privacybydesign/gabi") &&
			!strings.Contains(f.File, "zz_vf_") && !strings.Contains(f.File, "/verif/") && !strings.Contains(f.File, "internal/vf") &&
			!strings.Contains(fn, "internal/vfh") && !strings.Contains(fn, "gabi/big.") {
			return strings.TrimPrefix(fn, "github.com/privacybydesign/gabi")
		}
		if first == "" && !strings.HasPrefix(fn, "runtime.") && fn != "" {
			first = fn
		}
		if !more {
			break
		}
	}
	return "outside-gabi(" + first + ")"
}

type output struct {
	Property    string           `json:"property"`
	Tier        string           `json:"tier"`
	Seed        int64            `json:"seed"`
	Shard       int              `json:"shard"`
	Test        string           `json:"test"`
	Evaluations int64            `json:"evaluations"`
	Nontrivial  int64            `json:"nontrivial"`
	Distinct    int              `json:"distinct_nontrivial"`
	Classes     map[string]int64 `json:"classes"`
	Samples     []any            `json:"samples"`
	Notes       map[string]any   `json:"notes,omitempty"`
	Violations  []*Violation     `json:"violations"`
	KnownHits   map[string]int64 `json:"known_hits"`
	ControlsOK  int64            `json:"controls_ok"`
	ControlBad  []string         `json:"controls_bad"`
	Exhaustive  bool             `json:"exhaustive"`
	WallS       float64          `json:"wall_s"`
	TestFailed  bool             `json:"test_failed"`
}

// Flush writes <VF_OUT>.<test>.json and <VF_OUT>.<test>.fp (raw fingerprints) and fails the
// test when an enumerating check recorded a violation.
func (r *Rec) Flush() {
	r.mu.Lock()
	defer r.mu.Unlock()
	if r.failed {
		r.t.Errorf("VF: %d violation signature(s) recorded", len(r.vorder))
	}
	if len(r.controlBad) > 0 {
		r.t.Errorf("VF-CONTROL-FAILED: %v", r.controlBad)
	}
	if r.out == "" {
		r.t.Logf("VF %s: evals=%d nontrivial=%d distinct=%d classes=%v violations=%v known=%v",
			r.ID, r.evals, r.nontrivial, len(r.fps), r.classes, r.vorder, r.knownHits)
		return
	}
	o := output{
		Property: r.ID, Tier: r.tier, Seed: r.seed, Shard: r.shard, Test: r.t.Name(),
		Evaluations: r.evals, Nontrivial: r.nontrivial, Distinct: len(r.fps),
		Classes: r.classes, Samples: r.samples, Notes: r.notes, KnownHits: r.knownHits,
		ControlsOK: r.controlsOK, ControlBad: r.controlBad, Exhaustive: r.exhaustive,
		WallS: time.Since(r.start).Seconds(), TestFailed: r.t.Failed() || r.failed,
	}
	for _, s := range r.vorder {
		o.Violations = append(o.Violations, r.violations[s])
	}
	name := strings.ReplaceAll(r.t.Name(), "/", "_")
	base := fmt.Sprintf("%s.%s.s%d", r.out, name, r.shard)
	b, err := json.Marshal(o)
	if err != nil {
		// a sample or detail was not serialisable: drop them rather than lose the counts
		o.Samples = []any{fmt.Sprintf("unserialisable samples: %v", err)}
		for _, v := range o.Violations {
			v.Detail = fmt.Sprint(v.Detail)
		}
		b, _ = json.Marshal(o)
	}
	_ = os.WriteFile(base+".json", b, 0o644)
	keys := make([]uint64, 0, len(r.fps))
	for k := range r.fps {
		keys = append(keys, k)
	}
	sort.Slice(keys, func(i, j int) bool { return keys[i] < keys[j] })
	buf := make([]byte, 8*len(keys))
	for i, k := range keys {
		binary.LittleEndian.PutUint64(buf[8*i:], k)
	}
	_ = os.WriteFile(base+".fp", buf, 0o644)
}
