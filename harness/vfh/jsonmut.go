package vfh

// JSON tree mutator: parses a document into a generic tree and applies structural mutation
// operators chosen by a rapid generator (so the mutation path shrinks) or by fuzzer bytes.

import (
	"bytes"
	"encoding/base64"
	"encoding/json"
	"fmt"
	"math/big"
	"sort"
	"strconv"
	"strings"

	"pgregory.net/rapid"
)

type jnode struct {
	parent any // map[string]any or []any holder, via accessor closures below
	get    func() any
	set    func(v any)
	del    func()
	path   string
	inMap  bool
	key    string
}

// ParseJSON decodes with json.Number preserved.
func ParseJSON(doc []byte) (any, error) {
	d := json.NewDecoder(bytes.NewReader(doc))
	d.UseNumber()
	var v any
	if err := d.Decode(&v); err != nil {
		return nil, err
	}
	return v, nil
}

type root struct{ v any }

// collect enumerates every node below root (not the root itself) in deterministic order.
func collect(r *root) []*jnode {
	var out []*jnode
	var walk func(get func() any, path string)
	walk = func(get func() any, path string) {
		switch cur := get().(type) {
		case map[string]any:
			keys := make([]string, 0, len(cur))
			for k := range cur {
				keys = append(keys, k)
			}
			sort.Strings(keys)
			for _, k := range keys {
				k := k
				m := cur
				n := &jnode{
					get:   func() any { return m[k] },
					set:   func(v any) { m[k] = v },
					del:   func() { delete(m, k) },
					path:  path + "/" + k,
					inMap: true, key: k,
				}
				out = append(out, n)
				walk(n.get, n.path)
			}
		case []any:
			for i := range cur {
				i := i
				arr := cur
				n := &jnode{
					get:  func() any { return arr[i] },
					set:  func(v any) { arr[i] = v },
					path: fmt.Sprintf("%s/%d", path, i),
				}
				out = append(out, n)
				walk(n.get, n.path)
			}
		}
	}
	walk(func() any { return r.v }, "")
	return out
}

func deepCopy(v any) any {
	switch c := v.(type) {
	case map[string]any:
		m := make(map[string]any, len(c))
		for k, x := range c {
			m[k] = deepCopy(x)
		}
		return m
	case []any:
		a := make([]any, len(c))
		for i, x := range c {
			a[i] = deepCopy(x)
		}
		return a
	default:
		return v
	}
}

func kindOf(v any) string {
	switch v.(type) {
	case map[string]any:
		return "object"
	case []any:
		return "array"
	case string:
		return "string"
	case json.Number:
		return "number"
	case bool:
		return "bool"
	case nil:
		return "null"
	}
	return "other"
}

// Chooser abstracts the source of choices (rapid or fuzzer bytes).
type Chooser interface {
	Intn(n int, label string) int
}

type RapidChooser struct{ T *rapid.T }

func (c RapidChooser) Intn(n int, label string) int {
	if n <= 1 {
		return 0
	}
	return rapid.IntRange(0, n-1).Draw(c.T, label)
}

type ByteChooser struct {
	Data []byte
	pos  int
}

func (c *ByteChooser) Intn(n int, _ string) int {
	if n <= 1 {
		return 0
	}
	if c.pos+1 >= len(c.Data) {
		c.pos = len(c.Data)
		return 0
	}
	v := int(c.Data[c.pos])<<8 | int(c.Data[c.pos+1])
	c.pos += 2
	return v % n
}

func (c *ByteChooser) Exhausted() bool { return c.pos >= len(c.Data) }

var rekeyTargets = []string{"-1", "0", "1", "2", "7", "8", "9", "1000", "2147483648", "9223372036854775808", "x", ""}

// MutateJSON applies nops operators to doc. nBases is the number of bases of the key (for
// index re-keying). It returns the mutated document and a description of what was done.
func MutateJSON(doc []byte, nops int, nBases int, ch Chooser) ([]byte, []string, error) {
	return MutateJSONWith(doc, nops, nBases, ch, nil)
}

// MutateJSONWith: as MutateJSON; hostile lists integers with a meaning for the receiver (the modulus
// and its multiples: values without an inverse) that integer mutations may substitute.
func MutateJSONWith(doc []byte, nops int, nBases int, ch Chooser, hostile []*big.Int) ([]byte, []string, error) {
	tree, err := ParseJSON(doc)
	if err != nil {
		return nil, nil, err
	}
	r := &root{v: tree}
	var desc []string
	for op := 0; op < nops; op++ {
		nodes := collect(r)
		if len(nodes) == 0 {
			break
		}
		n := nodes[ch.Intn(len(nodes), "node")]
		kind := kindOf(n.get())
		switch ch.Intn(9, "op") {
		case 0: // delete
			if n.inMap {
				n.del()
				desc = append(desc, "delete "+n.path)
			} else {
				n.set(nil)
				desc = append(desc, "null-element "+n.path)
			}
		case 1: // null
			n.set(nil)
			desc = append(desc, "null "+n.path)
		case 2: // re-key a map entry
			if !n.inMap {
				n.set(nil)
				desc = append(desc, "null-element "+n.path)
				break
			}
			targets := append([]string{strconv.Itoa(nBases - 1), strconv.Itoa(nBases)}, rekeyTargets...)
			t := targets[ch.Intn(len(targets), "rekey")]
			v := n.get()
			keepOld := ch.Intn(2, "keep") == 1
			if _, err := strconv.Atoi(n.key); err != nil {
				// only index-keyed maps get additional entries; an extra member with an unknown
				// name is ignored by every decoder and would not be a malformation
				keepOld = false
			}
			if !keepOld {
				n.del()
			}
			// put under the new key in the same map: reach the map via a sibling-set trick
			setSibling(r, n.path, t, v)
			desc = append(desc, fmt.Sprintf("rekey %s -> %q keepOld=%v", n.path, t, keepOld))
		case 3: // replace by a copy of another subtree of the same kind (swap/move)
			var same []*jnode
			for _, o := range nodes {
				if o != n && kindOf(o.get()) == kind {
					same = append(same, o)
				}
			}
			if len(same) == 0 {
				n.set(nil)
				desc = append(desc, "null "+n.path)
				break
			}
			o := same[ch.Intn(len(same), "other")]
			if ch.Intn(2, "swap") == 1 {
				a, b := deepCopy(n.get()), deepCopy(o.get())
				n.set(b)
				o.set(a)
				desc = append(desc, "swap "+n.path+" <-> "+o.path)
			} else {
				n.set(deepCopy(o.get()))
				desc = append(desc, "copy "+o.path+" -> "+n.path)
			}
		case 4: // array surgery
			if arr, ok := n.get().([]any); ok {
				switch ch.Intn(4, "arr") {
				case 0:
					if len(arr) > 0 {
						n.set(arr[:len(arr)-1])
					}
					desc = append(desc, "truncate "+n.path)
				case 1:
					n.set([]any{})
					desc = append(desc, "empty "+n.path)
				case 2:
					if len(arr) > 0 {
						n.set(append(append([]any{}, arr...), deepCopy(arr[len(arr)-1])))
					}
					desc = append(desc, "extend "+n.path)
				case 3:
					if len(arr) > 1 {
						c := append([]any{}, arr...)
						c[0], c[len(c)-1] = c[len(c)-1], c[0]
						n.set(c)
					}
					desc = append(desc, "reverse-ends "+n.path)
				}
			} else {
				n.set([]any{})
				desc = append(desc, "to-empty-array "+n.path)
			}
		case 5: // replace by a value of another JSON kind
			alts := []any{map[string]any{}, []any{}, "AQ==", json.Number("1"), true, json.Number("-1"), json.Number("1.5"), json.Number("1e3")}
			a := alts[ch.Intn(len(alts), "kind")]
			n.set(deepCopy(a))
			desc = append(desc, fmt.Sprintf("retype %s -> %s", n.path, kindOf(a)))
		case 6, 7: // integer value mutation (base64 strings and numbers)
			if s, ok := n.get().(string); ok {
				raw, err := base64.StdEncoding.DecodeString(s)
				if err != nil {
					n.set("")
					desc = append(desc, "empty-string "+n.path)
					break
				}
				v := new(big.Int).SetBytes(raw)
				var nv any
				what := ""
				nint := 9
				if len(hostile) > 0 {
					nint = 11 // two of eleven choices substitute a hostile constant
				}
				switch k := ch.Intn(nint, "int"); k {
				case 9, 10:
					h := hostile[ch.Intn(len(hostile), "hostile")]
					nv, what = b64(h), "hostile-constant("+strconv.Itoa(h.BitLen())+" bits)"
				case 0:
					nv, what = "", "empty"
				case 1:
					nv, what = "AA==", "zero"
				case 2:
					nv, what = "AQ==", "one"
				case 3:
					k := 0
					if v.BitLen() > 1 {
						k = ch.Intn(v.BitLen(), "bit")
					}
					nv, what = b64(new(big.Int).Xor(v, new(big.Int).Lsh(big.NewInt(1), uint(k)))), "bitflip"
				case 4:
					nv, what = b64(new(big.Int).Add(v, big.NewInt(1))), "+1"
				case 5:
					nv, what = b64(new(big.Int).Lsh(big.NewInt(1), 4800)), "600-byte"
				case 6:
					nv, what = json.Number(v.String()), "decimal-same-value"
				case 7:
					nv, what = json.Number("-"+v.String()), "negative-decimal"
				case 8:
					nv, what = s+"=", "bad-base64"
				}
				n.set(nv)
				desc = append(desc, "int:"+what+" "+n.path)
			} else if num, ok := n.get().(json.Number); ok {
				alts := []string{"0", "1", "-1", "3", "4", "5", "255", "256", "257", "4294967296", "9223372036854775807", "18446744073709551615", "18446744073709551616", "1.5"}
				a := alts[ch.Intn(len(alts), "num")]
				n.set(json.Number(a))
				desc = append(desc, fmt.Sprintf("number %s: %s -> %s", n.path, num, a))
			} else {
				n.set(nil)
				desc = append(desc, "null "+n.path)
			}
		case 8: // duplicate the subtree over a sibling of the same kind in the same container
			var sib []*jnode
			pp := parentPath(n.path)
			for _, o := range nodes {
				if o != n && parentPath(o.path) == pp {
					sib = append(sib, o)
				}
			}
			if len(sib) == 0 {
				n.set(nil)
				desc = append(desc, "null "+n.path)
				break
			}
			o := sib[ch.Intn(len(sib), "sib")]
			o.set(deepCopy(n.get()))
			desc = append(desc, "overwrite-sibling "+o.path+" with "+n.path)
		}
	}
	out, err := json.Marshal(r.v)
	return out, desc, err
}

func b64(v *big.Int) string { return base64.StdEncoding.EncodeToString(v.Bytes()) }

func parentPath(p string) string {
	for i := len(p) - 1; i >= 0; i-- {
		if p[i] == '/' {
			return p[:i]
		}
	}
	return ""
}

// setSibling puts v under key in the map that contains the node at path.
func setSibling(r *root, path, key string, v any) {
	pp := parentPath(path)
	var cur any = r.v
	if pp != "" {
		seg := splitPath(pp)
		for _, s := range seg {
			switch c := cur.(type) {
			case map[string]any:
				cur = c[s]
			case []any:
				i, err := strconv.Atoi(s)
				if err != nil || i < 0 || i >= len(c) {
					return
				}
				cur = c[i]
			default:
				return
			}
		}
	}
	if m, ok := cur.(map[string]any); ok {
		m[key] = v
	}
}

func splitPath(p string) []string {
	if len(p) == 0 {
		return nil
	}
	return strings.Split(p[1:], "/")
}

// StripKeys removes every object member named in keys, at any depth (used to normalise
// fields that are deliberately outside a comparison).
func StripKeys(v any, keys map[string]bool) any {
	switch c := v.(type) {
	case map[string]any:
		for k := range c {
			if keys[k] {
				delete(c, k)
			} else {
				c[k] = StripKeys(c[k], keys)
			}
		}
		return c
	case []any:
		for i := range c {
			c[i] = StripKeys(c[i], keys)
		}
		return c
	}
	return v
}

// Canonical re-marshals a document with the given keys stripped.
func Canonical(doc []byte, strip map[string]bool) string {
	t, err := ParseJSON(doc)
	if err != nil {
		return "unparseable:" + string(doc)
	}
	b, _ := json.Marshal(StripKeys(t, strip))
	return string(b)
}

// ---- leaf enumeration (used for "alter every leaf of a proof tree")

// JSONLeafCount returns the number of leaves (strings, numbers, bools, nulls) of doc.
func JSONLeafCount(doc []byte) int {
	t, err := ParseJSON(doc)
	if err != nil {
		return 0
	}
	n := 0
	for _, nd := range collect(&root{v: t}) {
		k := kindOf(nd.get())
		if k != "object" && k != "array" {
			n++
		}
	}
	return n
}

// JSONAlterLeaf alters leaf number i (in deterministic document order). mode: "+1" adds one to an
// integer leaf (base64 or number), "zero" sets it to zero, "remove" deletes it (null for array
// elements), "swap" exchanges it with the next leaf of the same kind in the same container.
// Returns the new document, the path of the leaf and whether the alteration changed anything.
func JSONAlterLeaf(doc []byte, i int, mode string) ([]byte, string, bool) {
	t, err := ParseJSON(doc)
	if err != nil {
		return nil, "", false
	}
	r := &root{v: t}
	var leaves []*jnode
	for _, nd := range collect(r) {
		k := kindOf(nd.get())
		if k != "object" && k != "array" {
			leaves = append(leaves, nd)
		}
	}
	if i < 0 || i >= len(leaves) {
		return nil, "", false
	}
	n := leaves[i]
	changed := false
	switch mode {
	case "+1", "zero":
		switch v := n.get().(type) {
		case string:
			raw, err := base64.StdEncoding.DecodeString(v)
			if err != nil {
				n.set(v + "A")
				changed = true
				break
			}
			x := new(big.Int).SetBytes(raw)
			if mode == "+1" {
				x.Add(x, big.NewInt(1))
				changed = true
			} else {
				changed = x.Sign() != 0
				x.SetInt64(0)
			}
			n.set(b64(x))
		case json.Number:
			x, ok := new(big.Int).SetString(v.String(), 10)
			if !ok {
				n.set(json.Number("0"))
				changed = true
				break
			}
			if mode == "+1" {
				x.Add(x, big.NewInt(1))
				changed = true
			} else {
				changed = x.Sign() != 0
				x.SetInt64(0)
			}
			n.set(json.Number(x.String()))
		case bool:
			n.set(!v)
			changed = true
		default:
			n.set(json.Number("1"))
			changed = true
		}
	case "remove":
		if n.inMap {
			n.del()
		} else {
			n.set(nil)
		}
		changed = true
	case "swap":
		pp := parentPath(n.path)
		for j := i + 1; j < len(leaves); j++ {
			o := leaves[j]
			if parentPath(o.path) == pp && kindOf(o.get()) == kindOf(n.get()) {
				a, b := n.get(), o.get()
				if fmt.Sprint(a) != fmt.Sprint(b) {
					n.set(b)
					o.set(a)
					changed = true
				}
				break
			}
		}
	}
	out, err := json.Marshal(r.v)
	if err != nil {
		return nil, n.path, false
	}
	return out, n.path, changed
}

// JSONLeafKind maps a leaf path to a coarse kind: digits are dropped, so that
// "/PprimeIsPrimeProof/AnegResult/3" and ".../5" are the same kind.
func JSONLeafKind(path string) string {
	out := make([]byte, 0, len(path))
	for i := 0; i < len(path); i++ {
		if path[i] < '0' || path[i] > '9' {
			out = append(out, path[i])
		}
	}
	return string(out)
}

// JSONLeafPaths returns the paths of all leaves in the order used by JSONAlterLeaf.
func JSONLeafPaths(doc []byte) []string {
	t, err := ParseJSON(doc)
	if err != nil {
		return nil
	}
	var out []string
	for _, nd := range collect(&root{v: t}) {
		k := kindOf(nd.get())
		if k != "object" && k != "array" {
			out = append(out, nd.path)
		}
	}
	return out
}
