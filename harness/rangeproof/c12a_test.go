package rangeproof

// C12 part A - statement logic, exhaustive on an integer box.
// For every proof descriptor (sign, squares, a, k) that is TRUE for an attribute value m, every
// statement the library says the proof proves or implies (ProvesStatement) and the statement it
// reports (ProvenStatement) must hold for m under arbitrary-precision integer semantics.

import (
	"fmt"
	gobig "math/big"
	"testing"

	"github.com/privacybydesign/gabi/big"
	"github.com/privacybydesign/gabi/internal/vfh"
)

// refStatement: sign*(factor*m - bound) >= 0 over the integers (no machine-word wrap-around).
func refStatement(sign int, factor uint64, bound *gobig.Int, m int64) bool {
	v := new(gobig.Int).Mul(new(gobig.Int).SetUint64(factor), gobig.NewInt(m))
	v.Sub(v, bound)
	if sign == -1 {
		v.Neg(v)
	} else if sign != 1 {
		return false
	}
	return v.Sign() >= 0
}

func TestVF_C12_StatementLogic(t *testing.T) {
	rec := vfh.New(t, "C12")
	defer rec.Flush()
	kmax := int64(rec.N(24, 40))
	factorsQ := []uint64{0, 1, 2, 3, 4, 5, 8, 16, 1 << 31, 1 << 62, 1<<62 + 1, 1<<62 + 2, 1 << 63, 1<<63 + 1, 1<<64 - 1, 1<<64 - 4, (1 << 64) / 3}
	item := 0
	var sampled int
	for _, squares := range []int{3, 4} {
		as := []uint64{1, 2, 3, 4, 5, 8}
		if squares == 3 {
			as = []uint64{4} // enforced for three squares by ExtractStructure
		}
		for _, sign := range []int{1, -1} {
			for _, a := range as {
				for k := -kmax; k <= kmax; k++ {
					item++
					if !rec.Mine(item) {
						continue
					}
					p := &Proof{Cs: make([]*big.Int, squares), Sign: sign, A: uint(a), K: big.NewInt(k)}
					for m := int64(0); m <= 12; m++ {
						if !refStatement(sign, a, gobig.NewInt(k), m) {
							continue // descriptor false for m: such a proof cannot exist for m
						}
						// reported statement
						typ, f, b := p.ProvenStatement()
						s, err := typ.Sign()
						rec.Case(fmt.Sprintf("proven/squares=%d/sign=%+d", squares, sign), true, fmt.Sprintf("pv|%d|%d|%d|%d|%d", squares, sign, a, k, m))
						if err != nil || !refStatement(s, uint64(f), b.Go(), m) {
							rec.FailT(fmt.Sprintf("ProvenStatement-false-for-attribute:squares=%d", squares),
								map[string]any{"descriptor": fmt.Sprintf("squares=%d sign=%d a=%d k=%d", squares, sign, a, k), "m": m, "reported": fmt.Sprintf("sign=%d factor=%d bound=%s", s, f, b)})
						}
						// every implied statement
						for _, s2 := range []int{1, -1, 0, 2, -2} {
							for _, f2 := range factorsQ {
								for b2 := -kmax; b2 <= kmax; b2++ {
									got := p.ProvesStatement(s2, uint(f2), big.NewInt(b2))
									if !got {
										continue
									}
									nontrivial := !(s2 == sign && f2 == a && b2 == k)
									rec.Case(fmt.Sprintf("implied/squares=%d/sign=%+d", squares, sign), nontrivial,
										fmt.Sprintf("im|%d|%d|%d|%d|%d|%d|%d|%d", squares, sign, a, k, m, s2, f2, b2))
									if sampled < 6 && nontrivial && m == 3 {
										sampled++
										rec.Sample(func() any {
											return map[string]any{"descriptor": fmt.Sprintf("squares=%d sign=%d a=%d k=%d", squares, sign, a, k), "attribute": m,
												"library_says_proves": fmt.Sprintf("sign=%d factor=%d bound=%d", s2, f2, b2)}
										})
									}
									if !refStatement(s2, f2, gobig.NewInt(b2), m) {
										cls := "other"
										if f2 > (1<<64-1)/4 {
											cls = "factor-overflow"
										} else if s2 != 1 && s2 != -1 {
											cls = "unsupported-sign"
										}
										rec.FailT("ProvesStatement-claims-false-statement:"+cls,
											map[string]any{"descriptor": fmt.Sprintf("squares=%d sign=%d a=%d k=%d", squares, sign, a, k), "m": m,
												"query": fmt.Sprintf("sign=%d factor=%d bound=%d", s2, f2, b2)})
									}
								}
							}
						}
					}
					// completeness direction of the statement logic: the exact statement a proof was
					// made for is reported as proven (for three squares: via the rescaled bound)
					if squares == 4 {
						rec.Case("self/4sq", true, fmt.Sprintf("self|%d|%d|%d", sign, a, k))
						if !p.ProvesStatement(sign, uint(a), big.NewInt(k)) {
							rec.FailT("ProvesStatement-denies-own-statement", map[string]any{"descriptor": fmt.Sprintf("squares=4 sign=%d a=%d k=%d", sign, a, k)})
						}
					}
				}
			}
		}
	}
	rec.Note("box", fmt.Sprintf("sign in {-1,1}, squares in {3,4}, a in {1,2,3,4,5,8} (4 for three squares), k and query bounds in [-%d,%d], query factors %v, query signs {1,-1,0,2,-2}, attribute 0..12", kmax, kmax, factorsQ))
	rec.SetExhaustive(true)
}
