// Package vfk builds issuer key pairs for the /verif harness from embedded safe primes.
// All group elements are derived deterministically from a seed string, so a case that names
// (prime pair, seed) is reproducible. Lives in a virtual directory (build overlay only).
package vfk

import (
	"crypto/sha256"
	"encoding/base64"
	"fmt"
	"time"

	"github.com/privacybydesign/gabi/big"
	"github.com/privacybydesign/gabi/gabikeys"
	"github.com/privacybydesign/gabi/internal/vfh"
	"github.com/privacybydesign/gabi/signed"
)

type KeyPair struct {
	Sk   *gabikeys.PrivateKey
	Pk   *gabikeys.PublicKey
	Name string
	Bits int
}

// ToyParams: Ln=320 with the message/hash lengths of the real 1024-bit parameters, so that
// messages (<= 256 bits) stay below the group order (~318 bits).
func ToyParams() *gabikeys.SystemParameters {
	base := gabikeys.BaseParameters{LePrime: 120, Lh: 256, Lm: 256, Ln: 320, Lstatzk: 80}
	return &gabikeys.SystemParameters{BaseParameters: base, DerivedParameters: gabikeys.MakeDerivedParameters(base)}
}

func S2big(s string) *big.Int {
	r, ok := new(big.Int).SetString(s, 10)
	if !ok {
		panic("bad integer literal")
	}
	return r
}

// expand derives a pseudo-random integer of nbytes from a label.
func expand(label string, nbytes int) *big.Int {
	var out []byte
	h := sha256.Sum256([]byte(label))
	for len(out) < nbytes {
		out = append(out, h[:]...)
		h = sha256.Sum256(h[:])
	}
	return new(big.Int).SetBytes(out[:nbytes])
}

// Build constructs a key pair over N = p*q with nbases bases R_0..R_{nbases-1}.
func Build(p, q *big.Int, params *gabikeys.SystemParameters, nbases int, withRevocation bool, counter uint, seed string) *KeyPair {
	exp := time.Unix(2000000000, 0)
	sk, err := gabikeys.NewPrivateKey(p, q, "", counter, exp)
	if err != nil {
		panic(err)
	}
	n := sk.N
	nb := (n.BitLen() + 7) / 8
	one := big.NewInt(1)
	var s *big.Int
	for i := 0; ; i++ {
		s = expand(fmt.Sprintf("%s|S|%d", seed, i), nb+8)
		s.Mod(s, n)
		if new(big.Int).GCD(nil, nil, s, n).Cmp(one) == 0 && s.Cmp(one) > 0 {
			s.Mul(s, s).Mod(s, n)
			// S must generate QR_n: order p'q' (not p', q' or 1)
			if new(big.Int).Exp(s, sk.PPrime, n).Cmp(one) != 0 && new(big.Int).Exp(s, sk.QPrime, n).Cmp(one) != 0 {
				break
			}
		}
	}
	pow := func(label string) *big.Int {
		x := expand(seed+"|"+label, nb+8)
		x.Mod(x, sk.Order)
		if x.Sign() == 0 {
			x.SetInt64(3)
		}
		return new(big.Int).Exp(s, x, n)
	}
	z := pow("Z")
	r := make([]*big.Int, nbases)
	for i := range r {
		r[i] = pow(fmt.Sprintf("R%d", i))
	}
	pk, err := gabikeys.NewPublicKey(n, z, s, nil, nil, r, "", counter, exp)
	if err != nil {
		panic(err)
	}
	if pk.Params == nil || params != nil {
		pk.Params = params
	}
	if pk.Params == nil {
		panic(fmt.Sprintf("no system parameters for %d-bit modulus", n.BitLen()))
	}
	pk.Issuer = seed
	if withRevocation {
		// deterministic revocation material: an embedded P-256 key chosen by the seed, G and H
		// derived like the other bases (GenerateRevocationKeypair would draw all of it randomly,
		// which would make stored documents meaningless in another process)
		der, err := base64.StdEncoding.DecodeString(vfh.ECDSAKeys[int(counter)%len(vfh.ECDSAKeys)])
		if err != nil {
			panic(err)
		}
		key, err := signed.UnmarshalPrivateKey(der)
		if err != nil {
			panic(err)
		}
		pubDer, err := signed.MarshalPublicKey(&key.PublicKey)
		if err != nil {
			panic(err)
		}
		sk.ECDSAString = base64.StdEncoding.EncodeToString(der)
		sk.ECDSA = key
		pk.ECDSAString = base64.StdEncoding.EncodeToString(pubDer)
		pk.ECDSA = &key.PublicKey
		pk.G = pow("G")
		pk.H = pow("H")
	}
	return &KeyPair{Sk: sk, Pk: pk, Name: seed, Bits: n.BitLen()}
}

// Toy returns the i-th toy key (two 160-bit safe primes, ToyParams).
func Toy(i int, nbases int, withRevocation bool) *KeyPair {
	ps := vfh.SafePrimes160
	k := (2 * i) % (len(ps) - 1)
	return Build(S2big(ps[k]), S2big(ps[k+1]), ToyParams(), nbases, withRevocation, uint(i), fmt.Sprintf("toy%d", i))
}

// K1024 returns the i-th 1024-bit key (i in 0..3), default 1024-bit parameters.
func K1024(i int, nbases int, withRevocation bool) *KeyPair {
	ps := vfh.SafePrimes512
	k := (2 * i) % (len(ps) - 1)
	return Build(S2big(ps[k]), S2big(ps[k+1]), nil, nbases, withRevocation, uint(100+i), fmt.Sprintf("k1024-%d", i))
}

// K2048 returns the single 2048-bit key.
func K2048(nbases int, withRevocation bool) *KeyPair {
	ps := vfh.SafePrimes1024
	return Build(S2big(ps[0]), S2big(ps[1]), nil, nbases, withRevocation, 200, "k2048-0")
}
