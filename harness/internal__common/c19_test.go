package common

// C19 - Number-theoretic helpers compute what they claim.
// Exhaustive small domains + rapid-generated large operands, compared with math/big and with
// definitions checked directly (a*inv = 1, r^2 = a, sum of squares = n, x mod p in [0,p) ...).

import (
	"bytes"
	"crypto/sha256"
	"encoding/json"
	"fmt"
	gobig "math/big"
	"os"
	"os/exec"
	"path/filepath"
	"testing"

	"github.com/privacybydesign/gabi/big"
	"github.com/privacybydesign/gabi/internal/vfh"
	"pgregory.net/rapid"
)

func g(x *gobig.Int) *big.Int { return big.Convert(new(gobig.Int).Set(x)) }
func gi(x int64) *big.Int     { return big.NewInt(x) }

func smallPrimes(limit int) []int64 {
	sieve := make([]bool, limit+1)
	var out []int64
	for i := 2; i <= limit; i++ {
		if !sieve[i] {
			out = append(out, int64(i))
			for j := i * i; j <= limit; j += i {
				sieve[j] = true
			}
		}
	}
	return out
}

func genBig(rt *rapid.T, label string, maxBytes int) *gobig.Int {
	n := rapid.IntRange(1, maxBytes).Draw(rt, label+"n")
	return new(gobig.Int).SetBytes(rapid.SliceOfN(rapid.Byte(), n, n).Draw(rt, label))
}

func genPrime(rt *rapid.T, label string, maxBytes int, mod8 int) *gobig.Int {
	p := genBig(rt, label, maxBytes)
	p.SetBit(p, 0, 1)
	if p.Cmp(gobig.NewInt(3)) < 0 {
		p.SetInt64(3)
	}
	for !(p.ProbablyPrime(24) && (mod8 < 0 || int(new(gobig.Int).Mod(p, gobig.NewInt(8)).Int64()) == mod8)) {
		p.Add(p, gobig.NewInt(2))
	}
	return p
}

// ---------- ModInverse, ModPow

func TestVF_C19_ModInverse(t *testing.T) {
	rec := vfh.New(t, "C19")
	defer rec.Flush()
	check := func(a, n *gobig.Int) string {
		inv, ok := ModInverse(g(a), g(n))
		coprime := new(gobig.Int).GCD(nil, nil, a, n).Cmp(gobig.NewInt(1)) == 0
		if ok != coprime {
			return fmt.Sprintf("ModInverse-existence-wrong(ok=%v,coprime=%v)", ok, coprime)
		}
		if ok {
			if inv.Sign() <= 0 || inv.Go().Cmp(n) >= 0 {
				return "ModInverse-result-out-of-range"
			}
			if new(gobig.Int).Mod(new(gobig.Int).Mul(a, inv.Go()), n).Cmp(gobig.NewInt(1)) != 0 {
				return "ModInverse-result-not-an-inverse"
			}
		}
		return ""
	}
	if rec.Shard() == 0 {
		for n := int64(2); n <= 512; n++ {
			for a := int64(0); a < n; a++ {
				rec.Case("ModInverse/exhaustive", new(gobig.Int).GCD(nil, nil, gobig.NewInt(a), gobig.NewInt(n)).Int64() != 1, fmt.Sprintf("mi|%d|%d", a, n))
				if s := check(gobig.NewInt(a), gobig.NewInt(n)); s != "" {
					rec.FailT(s, map[string]any{"a": a, "n": n})
				}
			}
		}
	}
	rec.Check(func(rt *rapid.T) {
		n := genBig(rt, "n", 512)
		if n.Cmp(gobig.NewInt(2)) < 0 {
			n.SetInt64(2)
		}
		var a *gobig.Int
		if rapid.Bool().Draw(rt, "shareFactor") {
			f := genBig(rt, "f", 8)
			if f.Sign() == 0 {
				f.SetInt64(2)
			}
			n.Mul(n, f)
			a = new(gobig.Int).Mul(genBig(rt, "a", 64), f)
		} else {
			a = genBig(rt, "a", 512)
		}
		a.Mod(a, n)
		rec.Case("ModInverse/random", true, "mi|"+a.String()+"|"+n.String())
		rec.Sample(func() any { return map[string]any{"helper": "ModInverse", "a_bits": a.BitLen(), "n_bits": n.BitLen()} })
		if s := check(a, n); s != "" {
			rec.Fail(rt, s, map[string]any{"a": a.String(), "n": n.String()})
		}
		// ModPow with signed exponents
		x := new(gobig.Int).Mod(genBig(rt, "x", 64), n)
		y := genBig(rt, "y", 40)
		neg := rapid.Bool().Draw(rt, "neg")
		if neg {
			y.Neg(y)
		}
		yCopy := new(gobig.Int).Set(y)
		got, err := ModPow(g(x), big.Convert(y), g(n))
		if y.Cmp(yCopy) != 0 {
			rec.Fail(rt, "ModPow-modifies-exponent", map[string]any{"y": yCopy.String()})
			return
		}
		inv := new(gobig.Int).ModInverse(x, n)
		rec.Case(fmt.Sprintf("ModPow/neg=%v/invertible=%v", neg, inv != nil), neg, "mp|"+x.String()+"|"+y.String()+"|"+n.String())
		switch {
		case y.Sign() >= 0:
			if err != nil || got.Go().Cmp(new(gobig.Int).Exp(x, y, n)) != 0 {
				rec.Fail(rt, "ModPow-wrong-for-nonnegative-exponent", map[string]any{"x": x.String(), "y": y.String(), "n": n.String()})
			}
		case inv == nil:
			if err == nil {
				rec.Fail(rt, "ModPow-invents-inverse", map[string]any{"x": x.String(), "y": y.String(), "n": n.String()})
			}
		default:
			want := new(gobig.Int).Exp(inv, new(gobig.Int).Neg(y), n)
			if err != nil || got.Go().Cmp(want) != 0 {
				rec.Fail(rt, "ModPow-wrong-for-negative-exponent", map[string]any{"x": x.String(), "y": y.String(), "n": n.String()})
			}
		}
	})
}

// ---------- Legendre, PrimeSqrt, Crt, ModSqrt

func euler(a, p int64) int {
	a = ((a % p) + p) % p
	if a == 0 {
		return 0
	}
	r := new(gobig.Int).Exp(gobig.NewInt(a), gobig.NewInt((p-1)/2), gobig.NewInt(p)).Int64()
	if r == 1 {
		return 1
	}
	return -1
}

func TestVF_C19_LegendreSqrt(t *testing.T) {
	rec := vfh.New(t, "C19")
	defer rec.Flush()
	primes := smallPrimes(1 << 12)[1:] // odd primes < 4096
	for pi, p := range primes {
		if !rec.Mine(pi) {
			continue
		}
		residues := map[int64]bool{}
		for x := int64(0); x < p; x++ {
			residues[x*x%p] = true
		}
		for a := -p + 1; a < 2*p; a++ {
			want := euler(a, p)
			got := LegendreSymbol(gi(a), gi(p))
			rec.Case("Legendre/exhaustive", a < 0 || a >= p, fmt.Sprintf("ls|%d|%d", a, p))
			if got != want {
				rec.FailT("LegendreSymbol-wrong", map[string]any{"a": a, "p": p, "got": got, "want": want})
			}
		}
		loops := 0
		for a := int64(0); a < p; a++ {
			r, ok := PrimeSqrt(gi(a), gi(p))
			nt := p%8 == 1
			rec.Case(fmt.Sprintf("PrimeSqrt/exhaustive/p=%dmod8", p%8), nt, fmt.Sprintf("ps|%d|%d", a, p))
			if ok != residues[a] {
				rec.FailT("PrimeSqrt-existence-wrong", map[string]any{"a": a, "p": p, "ok": ok})
				continue
			}
			if ok {
				rv := r.Int64()
				if r.Sign() < 0 || rv >= p || rv*rv%p != a {
					rec.FailT("PrimeSqrt-root-wrong", map[string]any{"a": a, "p": p, "root": r.String()})
				}
				loops++
			}
		}
	}
	rec.Check(func(rt *rapid.T) {
		mod8 := rapid.SampledFrom([]int{1, 3, 5, 7}).Draw(rt, "mod8")
		p := genPrime(rt, "p", rapid.SampledFrom([]int{8, 32, 64, 128, 256}).Draw(rt, "pbytes"), mod8)
		a := genBig(rt, "a", 260)
		if rapid.Bool().Draw(rt, "negA") {
			a.Neg(a)
		}
		want := gobig.Jacobi(new(gobig.Int).Mod(a, p), p)
		got := LegendreSymbol(g(a), g(p))
		rec.Case(fmt.Sprintf("Legendre/random/p=%dmod8", mod8), true, "ls|"+a.String()+"|"+p.String())
		rec.Sample(func() any {
			return map[string]any{"helper": "LegendreSymbol/PrimeSqrt", "p_bits": p.BitLen(), "p_mod_8": mod8}
		})
		if got != want {
			rec.Fail(rt, "LegendreSymbol-wrong", map[string]any{"a": a.String(), "p": p.String(), "got": got, "want": want})
			return
		}
		// PrimeSqrt on a residue (constructed) and on a random value
		x := new(gobig.Int).Mod(genBig(rt, "x", 260), p)
		sq := new(gobig.Int).Mod(new(gobig.Int).Mul(x, x), p)
		for _, v := range []*gobig.Int{sq, new(gobig.Int).Mod(a, p)} {
			r, ok := PrimeSqrt(g(v), g(p))
			isRes := v.Sign() == 0 || gobig.Jacobi(v, p) == 1
			rec.Case(fmt.Sprintf("PrimeSqrt/random/p=%dmod8/residue=%v", mod8, isRes), true, "ps|"+v.String()+"|"+p.String())
			if ok != isRes {
				rec.Fail(rt, "PrimeSqrt-existence-wrong", map[string]any{"a": v.String(), "p": p.String(), "ok": ok})
				return
			}
			if ok && (r.Sign() < 0 || r.Go().Cmp(p) >= 0 || new(gobig.Int).Mod(new(gobig.Int).Mul(r.Go(), r.Go()), p).Cmp(v) != 0) {
				rec.Fail(rt, "PrimeSqrt-root-wrong", map[string]any{"a": v.String(), "p": p.String(), "root": r.String()})
				return
			}
		}
	})
}

func TestVF_C19_CrtModSqrt(t *testing.T) {
	rec := vfh.New(t, "C19")
	defer rec.Flush()
	if rec.Shard() == 0 {
		for pa := int64(2); pa <= 64; pa++ {
			for pb := int64(2); pb <= 64; pb++ {
				if new(gobig.Int).GCD(nil, nil, gobig.NewInt(pa), gobig.NewInt(pb)).Int64() != 1 {
					continue
				}
				for _, ab := range [][2]int64{{0, 0}, {1, 0}, {0, 1}, {pa - 1, pb - 1}, {pa / 2, pb / 3}, {3 % pa, 5 % pb}} {
					x := Crt(gi(ab[0]), gi(pa), gi(ab[1]), gi(pb))
					rec.Case("Crt/exhaustive-moduli", true, fmt.Sprintf("crt|%d|%d|%d|%d", ab[0], pa, ab[1], pb))
					xv := x.Int64()
					if x.Sign() < 0 || xv >= pa*pb || xv%pa != ab[0] || xv%pb != ab[1] {
						rec.FailT("Crt-wrong", map[string]any{"a": ab[0], "pa": pa, "b": ab[1], "pb": pb, "x": x.String()})
					}
				}
			}
		}
		// ModSqrt on small factor lists, every residue class
		odd := []int64{3, 5, 7, 11, 13, 17}
		var lists [][]int64
		for i := range odd {
			lists = append(lists, []int64{odd[i]}, []int64{4, odd[i]})
			for j := i + 1; j < len(odd); j++ {
				lists = append(lists, []int64{odd[i], odd[j]}, []int64{odd[j], odd[i]}, []int64{odd[i], 4, odd[j]})
				for k := j + 1; k < len(odd); k++ {
					lists = append(lists, []int64{odd[i], odd[j], odd[k]}, []int64{4, odd[k], odd[i], odd[j]})
				}
			}
		}
		for _, fl := range lists {
			n := int64(1)
			var fs []*big.Int
			for _, f := range fl {
				n *= f
				fs = append(fs, gi(f))
			}
			squares := map[int64]bool{}
			for x := int64(0); x < n; x++ {
				squares[x*x%n] = true
			}
			for a := int64(0); a < n; a++ {
				r, ok := ModSqrt(gi(a), fs)
				rec.Case(fmt.Sprintf("ModSqrt/exhaustive/factors=%d", len(fl)), len(fl) >= 3, fmt.Sprintf("ms|%d|%v", a, fl))
				if ok != squares[a] {
					rec.FailT("ModSqrt-existence-wrong", map[string]any{"a": a, "factors": fl, "ok": ok})
					continue
				}
				if ok {
					rv := new(gobig.Int).Mod(r.Go(), gobig.NewInt(n)).Int64()
					if rv*rv%n != a {
						rec.FailT("ModSqrt-root-wrong", map[string]any{"a": a, "factors": fl, "root": r.String()})
					}
				}
			}
		}
	}
	rec.Check(func(rt *rapid.T) {
		nf := rapid.IntRange(1, 3).Draw(rt, "nf")
		var fs []*gobig.Int
		n := gobig.NewInt(1)
		for i := 0; i < nf; i++ {
			for {
				p := genPrime(rt, fmt.Sprintf("f%d", i), rapid.SampledFrom([]int{4, 16, 64, 128}).Draw(rt, "fb"), -1)
				dup := false
				for _, q := range fs {
					if q.Cmp(p) == 0 {
						dup = true
					}
				}
				if !dup {
					fs = append(fs, p)
					n.Mul(n, p)
					break
				}
			}
		}
		if rapid.Bool().Draw(rt, "with4") {
			pos := rapid.IntRange(0, len(fs)).Draw(rt, "pos4")
			fs = append(fs[:pos:pos], append([]*gobig.Int{gobig.NewInt(4)}, fs[pos:]...)...)
			n.Mul(n, gobig.NewInt(4))
		}
		var gfs []*big.Int
		for _, f := range fs {
			gfs = append(gfs, g(f))
		}
		x := new(gobig.Int).Mod(genBig(rt, "x", 400), n)
		sq := new(gobig.Int).Mod(new(gobig.Int).Mul(x, x), n)
		rnd := new(gobig.Int).Mod(genBig(rt, "a", 400), n)
		for _, a := range []*gobig.Int{sq, rnd} {
			solvable := true
			for _, f := range fs {
				am := new(gobig.Int).Mod(a, f)
				if f.Cmp(gobig.NewInt(4)) == 0 {
					if am.Int64() >= 2 {
						solvable = false
					}
				} else if am.Sign() != 0 && gobig.Jacobi(am, f) != 1 {
					solvable = false
				}
			}
			r, ok := ModSqrt(g(a), gfs)
			rec.Case(fmt.Sprintf("ModSqrt/random/factors=%d/solvable=%v", len(fs), solvable), true, "ms|"+a.String()+"|"+n.String())
			rec.Sample(func() any { return map[string]any{"helper": "ModSqrt", "factors": len(fs), "modulus_bits": n.BitLen()} })
			if ok != solvable {
				rec.Fail(rt, "ModSqrt-existence-wrong", map[string]any{"a": a.String(), "factors": fmt.Sprint(fs), "ok": ok})
				return
			}
			if ok && new(gobig.Int).Mod(new(gobig.Int).Mul(r.Go(), r.Go()), n).Cmp(a) != 0 {
				rec.Fail(rt, "ModSqrt-root-wrong", map[string]any{"a": a.String(), "factors": fmt.Sprint(fs), "root": r.String()})
				return
			}
		}
		// Crt on two random coprime moduli
		pa, pb := fs[0], gobig.NewInt(9)
		if len(fs) > 1 {
			pb = fs[1]
		}
		if new(gobig.Int).GCD(nil, nil, pa, pb).Cmp(gobig.NewInt(1)) == 0 {
			a := new(gobig.Int).Mod(genBig(rt, "ca", 130), pa)
			b := new(gobig.Int).Mod(genBig(rt, "cb", 130), pb)
			xr := Crt(g(a), g(pa), g(b), g(pb)).Go()
			rec.Case("Crt/random", true, "crt|"+a.String()+"|"+pa.String()+"|"+b.String()+"|"+pb.String())
			if xr.Sign() < 0 || xr.Cmp(new(gobig.Int).Mul(pa, pb)) >= 0 || new(gobig.Int).Mod(xr, pa).Cmp(a) != 0 || new(gobig.Int).Mod(xr, pb).Cmp(b) != 0 {
				rec.Fail(rt, "Crt-wrong", map[string]any{"a": a.String(), "pa": pa.String(), "b": b.String(), "pb": pb.String(), "x": xr.String()})
			}
		}
	})
}

// ---------- SumFourSquares

func checkFourSquares(n *gobig.Int) string {
	in := g(n)
	a, b, c, d := SumFourSquares(in)
	if in.Go().Cmp(n) != 0 {
		return "SumFourSquares-modifies-input"
	}
	sum := new(gobig.Int)
	lim := new(gobig.Int).Lsh(gobig.NewInt(1), uint((n.BitLen()+1)/2+1))
	for _, v := range []*big.Int{a, b, c, d} {
		if v == nil || v.Sign() < 0 {
			return "SumFourSquares-negative-or-nil-term"
		}
		if v.Go().Cmp(lim) > 0 {
			return "SumFourSquares-term-too-large"
		}
		sum.Add(sum, new(gobig.Int).Mul(v.Go(), v.Go()))
	}
	if sum.Cmp(n) != 0 {
		return "SumFourSquares-wrong-sum"
	}
	return ""
}

func fourSqClass(n *gobig.Int) string {
	if n.Sign() == 0 {
		return "zero"
	}
	switch new(gobig.Int).And(n, gobig.NewInt(3)).Int64() {
	case 0:
		return "0mod4"
	case 2:
		return "2mod4"
	default:
		return "odd"
	}
}

func TestVF_C19_FourSquares(t *testing.T) {
	rec := vfh.New(t, "C19")
	defer rec.Flush()
	limit := int64(rec.N(1<<15, 1<<20))
	for n := int64(rec.Shard()); n < limit; n += int64(rec.NShards()) {
		bn := gobig.NewInt(n)
		rec.Case("SumFourSquares/exhaustive/"+fourSqClass(bn), n%4 != 2, fmt.Sprintf("4sq|%d", n))
		if s := checkFourSquares(bn); s != "" {
			rec.FailT(s, map[string]any{"n": n})
		}
	}
	rec.Note("four_squares_exhaustive_below", limit)
	rec.Check(func(rt *rapid.T) {
		var n *gobig.Int
		switch rapid.IntRange(0, 4).Draw(rt, "cls") {
		case 0: // 4^j * t
			n = genBig(rt, "t", 40)
			n.Lsh(n, 2*uint(rapid.IntRange(0, 200).Draw(rt, "j")))
		case 1:
			n = new(gobig.Int).Lsh(gobig.NewInt(1), uint(rapid.IntRange(0, 1024).Draw(rt, "k")))
			n.Add(n, gobig.NewInt(int64(rapid.IntRange(-1, 1).Draw(rt, "pm"))))
			if n.Sign() < 0 {
				n.SetInt64(0)
			}
		case 2: // 4^j(8i+7)
			n = new(gobig.Int).Lsh(gobig.NewInt(int64(8*rapid.IntRange(0, 1<<30).Draw(rt, "i")+7)), 2*uint(rapid.IntRange(0, 100).Draw(rt, "j")))
		default:
			n = genBig(rt, "n", rapid.SampledFrom([]int{4, 16, 32, 64, 128}).Draw(rt, "nb"))
		}
		rec.Case("SumFourSquares/random/"+fourSqClass(n), true, "4sq|"+n.String())
		rec.Sample(func() any {
			return map[string]any{"helper": "SumFourSquares", "n_bits": n.BitLen(), "class": fourSqClass(n)}
		})
		if s := checkFourSquares(n); s != "" {
			rec.Fail(rt, s, map[string]any{"n": n.String()})
		}
	})
}

// ---------- FastMod

func TestVF_C19_FastMod(t *testing.T) {
	rec := vfh.New(t, "C19")
	defer rec.Flush()
	var prior []*gobig.Int // moduli the same FastMod object was set to before (a reused object)
	check := func(p, x *gobig.Int, alias bool) string {
		var m FastMod
		for _, q := range prior {
			m.Set(g(q))
		}
		m.Set(g(p))
		xin := g(x)
		var ret *big.Int
		if alias {
			ret = xin
		} else {
			ret = big.NewInt(7777)
		}
		out := m.Mod(ret, xin)
		want := new(gobig.Int).Mod(x, p)
		if out == nil || out.Go().Cmp(want) != 0 {
			return "FastMod-wrong-result"
		}
		if out != ret && ret.Go().Cmp(want) != 0 {
			return "FastMod-result-not-stored-in-ret"
		}
		if !alias && xin.Go().Cmp(x) != 0 {
			return "FastMod-modifies-operand"
		}
		return ""
	}
	{
		for b := uint(2); b <= 12; b++ {
			for c := int64(1); c < 1<<(b-1); c++ { // p = 2^b - c keeps bit length b
				if !rec.Mine(int(c)) {
					continue
				}
				p := gobig.NewInt(1<<b - c)
				if p.BitLen() != int(b) {
					continue
				}
				for x := int64(-1 << 14); x <= 1<<14; x += 1 + absI(x)/97 {
					for _, alias := range []bool{false, true} {
						rec.Case(fmt.Sprintf("FastMod/exhaustive/negative=%v/alias=%v", x < 0, alias), x < 0 || alias, fmt.Sprintf("fm|%d|%d|%d|%v", b, c, x, alias))
						if s := check(p, gobig.NewInt(x), alias); s != "" {
							rec.FailT(s, map[string]any{"p": p.String(), "x": x, "alias": alias})
						}
					}
				}
			}
		}
	}
	rec.Check(func(rt *rapid.T) {
		b := uint(rapid.SampledFrom([]int{16, 61, 64, 65, 127, 256, 521, 1024, 4096}).Draw(rt, "b"))
		var c *gobig.Int
		if rapid.Bool().Draw(rt, "smallC") { // fast path: c < 2^59
			c = genBig(rt, "c", 7)
		} else {
			c = genBig(rt, "c", int(b/8)-1)
		}
		p := new(gobig.Int).Lsh(gobig.NewInt(1), b)
		p.Sub(p, c)
		if p.Sign() <= 0 || p.BitLen() != int(b) {
			p = new(gobig.Int).Sub(new(gobig.Int).Lsh(gobig.NewInt(1), b), gobig.NewInt(1))
		}
		var x *gobig.Int
		switch rapid.IntRange(0, 5).Draw(rt, "xcls") {
		case 0:
			x = new(gobig.Int).Set(p)
		case 1:
			x = new(gobig.Int).Lsh(gobig.NewInt(1), b)
		case 2:
			x = new(gobig.Int).Sub(new(gobig.Int).Lsh(gobig.NewInt(1), b), gobig.NewInt(1))
		case 3:
			x = genBig(rt, "x", int(b)) // up to 8*b bits
		case 4:
			x = new(gobig.Int).Mul(p, genBig(rt, "k", 9))
			x.Add(x, gobig.NewInt(int64(rapid.IntRange(-1, 1).Draw(rt, "pm"))))
		default:
			x = genBig(rt, "x", int(b/8)+1)
		}
		if rapid.IntRange(0, 3).Draw(rt, "neg") == 0 {
			x.Neg(x)
		}
		alias := rapid.Bool().Draw(rt, "alias")
		// the object may have served other moduli before: of the special form 2^b' - c' and ordinary
		prior = nil
		for k := rapid.IntRange(0, 2).Draw(rt, "priorSets"); k > 0; k-- {
			pb := uint(rapid.SampledFrom([]int{16, 61, 64, 127, 256, 1024}).Draw(rt, "pb"))
			q := new(gobig.Int).Lsh(gobig.NewInt(1), pb)
			if rapid.Bool().Draw(rt, "priorSpecial") {
				q.Sub(q, genBig(rt, "pc", 6))
			} else {
				q.Sub(q, genBig(rt, "pc", int(pb/8)-1))
			}
			if q.Sign() > 0 {
				prior = append(prior, q)
			}
		}
		rec.Case(fmt.Sprintf("FastMod/random/negative=%v/alias=%v/reused-object=%v", x.Sign() < 0, alias, len(prior) > 0), true, "fm|"+p.String()+"|"+x.String()+fmt.Sprint(prior))
		rec.Sample(func() any {
			return map[string]any{"helper": "FastMod", "b": b, "x_bits": x.BitLen(), "negative": x.Sign() < 0, "aliased": alias}
		})
		if s := check(p, x, alias); s != "" {
			rec.Fail(rt, s, map[string]any{"p": p.String(), "x": x.String(), "alias": alias, "object_set_before_to": fmt.Sprint(prior)})
		}
	})
}

// ---------- RandomPrimeInRange

type seededReader struct {
	state [32]byte
	buf   []byte
}

func (r *seededReader) Read(p []byte) (int, error) {
	for i := range p {
		if len(r.buf) == 0 {
			r.state = sha256.Sum256(r.state[:])
			r.buf = append([]byte{}, r.state[:]...)
		}
		p[i] = r.buf[0]
		r.buf = r.buf[1:]
	}
	return len(p), nil
}

func TestVF_C19_RandomPrimeInRange(t *testing.T) {
	rec := vfh.New(t, "C19")
	defer rec.Flush()
	rec.Check(func(rt *rapid.T) {
		start := uint(rapid.IntRange(2, 600).Draw(rt, "start"))
		length := uint(rapid.IntRange(1, 200).Draw(rt, "length"))
		if rapid.Bool().Draw(rt, "mult8") {
			length = uint(rapid.SampledFrom([]int{8, 16, 24, 64, 120, 192}).Draw(rt, "len8"))
		}
		lo := new(gobig.Int).Lsh(gobig.NewInt(1), start)
		hi := new(gobig.Int).Add(lo, new(gobig.Int).Lsh(gobig.NewInt(1), length))
		// the function does not terminate on an interval without an (odd) prime: keep it inside its domain
		if length < 12 {
			found := false
			for c := new(gobig.Int).Or(lo, gobig.NewInt(1)); c.Cmp(hi) <= 0; c.Add(c, gobig.NewInt(2)) {
				if c.ProbablyPrime(16) {
					found = true
					break
				}
			}
			if !found {
				rec.Class("RandomPrimeInRange/skipped-interval-without-prime", 1)
				return
			}
		}
		rd := &seededReader{}
		copy(rd.state[:], rapid.SliceOfN(rapid.Byte(), 8, 8).Draw(rt, "seed"))
		var upper, lower int
		n := 12
		for i := 0; i < n; i++ {
			p, err := RandomPrimeInRange(rd, start, length)
			rec.Case(fmt.Sprintf("RandomPrimeInRange/length%%8=%d", length%8), true, fmt.Sprintf("rp|%d|%d|%x|%d", start, length, rd.state[:4], i))
			if err != nil || p == nil {
				rec.Fail(rt, "RandomPrimeInRange-error", map[string]any{"start": start, "length": length, "err": fmt.Sprint(err)})
				return
			}
			if p.Go().Cmp(lo) < 0 || p.Go().Cmp(hi) > 0 {
				rec.Fail(rt, "RandomPrimeInRange-outside-interval", map[string]any{"start": start, "length": length, "p": p.String()})
				return
			}
			if !p.Go().ProbablyPrime(32) {
				rec.Fail(rt, "RandomPrimeInRange-not-prime", map[string]any{"start": start, "length": length, "p": p.String()})
				return
			}
			if new(gobig.Int).Sub(p.Go(), lo).BitLen() == int(length) {
				upper++
			} else {
				lower++
			}
		}
		if length >= 16 && (upper == 0 || lower == 0) { // probability 2^-11 per case for a uniform draw
			rec.Class("RandomPrimeInRange/one-sided-draws", 1)
		}
		rec.Sample(func() any { return map[string]any{"helper": "RandomPrimeInRange", "start": start, "length": length} })
	})
	for _, st := range []uint{0, 1} {
		_, err := RandomPrimeInRange(&seededReader{}, st, 8)
		rec.Case("RandomPrimeInRange/start<2", true, fmt.Sprintf("rp-small|%d", st))
		if err == nil {
			rec.FailT("RandomPrimeInRange-accepts-start-below-2", map[string]any{"start": st})
		}
	}
}

// ---------- cross-check of saved vectors by an independent Python implementation (thorough)

type c19Vec struct {
	Op   string   `json:"op"`
	Args []string `json:"args"`
	Out  []string `json:"out"`
	OK   bool     `json:"ok"`
}

func TestVF_C19_PythonVectors(t *testing.T) {
	rec := vfh.New(t, "C19")
	defer rec.Flush()
	if !rec.Thorough() {
		rec.Case("python-vectors/skipped-in-quick", true, "skip")
		rec.Case("python-vectors/skipped-in-quick", true, "skip2")
		return
	}
	verif := os.Getenv("VF_VERIF")
	var vecs []c19Vec
	rd := &seededReader{}
	rd.state[0] = byte(rec.Seed())
	next := func(nbytes int) *gobig.Int {
		b := make([]byte, nbytes)
		_, _ = rd.Read(b)
		return new(gobig.Int).SetBytes(b)
	}
	for i := 0; i < 5000; i++ {
		n := next(1 + i%96)
		n.Add(n, gobig.NewInt(2))
		a := new(gobig.Int).Mod(next(1+i%96), n)
		inv, ok := ModInverse(g(a), g(n))
		v := c19Vec{Op: "modinverse", Args: []string{a.String(), n.String()}, OK: ok}
		if ok {
			v.Out = []string{inv.String()}
		}
		vecs = append(vecs, v)
		m := next(1 + i%64)
		w, x, y, z := SumFourSquares(g(m))
		vecs = append(vecs, c19Vec{Op: "foursquares", Args: []string{m.String()}, Out: []string{w.String(), x.String(), y.String(), z.String()}, OK: true})
		p := next(1 + i%40)
		p.SetBit(p, 0, 1)
		for !p.ProbablyPrime(20) || p.Cmp(gobig.NewInt(3)) < 0 {
			p.Add(p, gobig.NewInt(2))
		}
		q := new(gobig.Int).Mod(next(1+i%40), p)
		vecs = append(vecs, c19Vec{Op: "legendre", Args: []string{q.String(), p.String()}, Out: []string{fmt.Sprint(LegendreSymbol(g(q), g(p)))}, OK: true})
		r, rok := PrimeSqrt(g(q), g(p))
		pv := c19Vec{Op: "primesqrt", Args: []string{q.String(), p.String()}, OK: rok}
		if rok {
			pv.Out = []string{r.String()}
		}
		vecs = append(vecs, pv)
	}
	dir := t.TempDir()
	path := filepath.Join(dir, "vectors.json")
	b, _ := json.Marshal(vecs)
	if err := os.WriteFile(path, b, 0o644); err != nil {
		t.Fatal(err)
	}
	out, err := exec.Command("python3", filepath.Join(verif, "pyref", "numref.py"), path).CombinedOutput()
	rec.Note("python_crosscheck", string(bytes.TrimSpace(out)))
	for i := range vecs {
		if i%50 == 0 {
			rec.Case("python-vectors/"+vecs[i].Op, true, fmt.Sprintf("pv|%d|%v", i, vecs[i].Args))
		}
	}
	rec.Class("python-vectors-total", int64(len(vecs)))
	if err != nil {
		if ee, ok := err.(*exec.ExitError); ok && ee.ExitCode() == 1 {
			rec.FailT("helper-differs-from-python-reference", string(out))
			return
		}
		t.Fatalf("python cross-check could not run: %v %s", err, out)
	}
}

func absI(x int64) int64 {
	if x < 0 {
		return -x
	}
	return x
}
