package common

// C15 - Fiat-Shamir challenge encoding equals its specification.
// Oracle: an independently written DER encoder + crypto/sha256 (refHashCommit), and the same
// for the hash-to-number expansion and the attribute hash; metamorphic injectivity checks.

import (
	"bytes"
	"crypto/sha256"
	"encoding/hex"
	"encoding/json"
	"fmt"
	gobig "math/big"
	"os"
	"os/exec"
	"path/filepath"
	"testing"

	"github.com/privacybydesign/gabi/big"
	"github.com/privacybydesign/gabi/internal/vfh"
	"pgregory.net/rapid"
)

// ---- reference implementation (no encoding/asn1): vfh.RefHashCommit ----

func refHashCommitBytes(values []*gobig.Int, issig bool) []byte {
	return vfh.RefHashCommitBytes(values, issig)
}
func refHashCommit(values []*gobig.Int, issig bool) *gobig.Int {
	return vfh.RefHashCommit(values, issig)
}

func refGetHashNumber(a, b *gobig.Int, index int, bitlen uint) *gobig.Int {
	var pre []*gobig.Int
	if a != nil {
		pre = append(pre, a)
	}
	if b != nil {
		pre = append(pre, b)
	}
	pre = append(pre, gobig.NewInt(int64(index)))
	res := new(gobig.Int)
	ctr := int64(0)
	for k := uint(0); k < bitlen; k += 256 {
		in := append(append([]*gobig.Int{}, pre...), gobig.NewInt(ctr))
		h := refHashCommit(in, false)
		res.Add(res, h.Lsh(h, k))
		ctr++
	}
	return res
}

// ---- generators ----

func c15GenInt(rt *rapid.T, label string) *gobig.Int {
	cls := rapid.IntRange(0, 11).Draw(rt, label+"cls")
	var v *gobig.Int
	switch cls {
	case 0:
		v = gobig.NewInt(int64(rapid.SampledFrom([]int{0, 1, -1, 127, 128, 255, 256, -128, -129, -255, -256, 32767, 32768, -32768, -32769}).Draw(rt, label+"c")))
	case 1, 2: // 2^k, 2^k - 1, -2^k, -2^k-1
		k := rapid.UintRange(0, 5000).Draw(rt, label+"k")
		v = new(gobig.Int).Lsh(gobig.NewInt(1), k)
		switch rapid.IntRange(0, 4).Draw(rt, label+"f") {
		case 1:
			v.Sub(v, gobig.NewInt(1))
		case 2:
			v.Neg(v)
		case 3:
			v.Neg(v).Sub(v, gobig.NewInt(1))
		case 4:
			v.Add(v, gobig.NewInt(1))
		}
	case 3: // top byte 0x80..0xff (needs leading zero) of chosen byte length
		n := rapid.SampledFrom([]int{1, 2, 31, 32, 33, 126, 127, 128, 129, 254, 255, 256, 257, 600}).Draw(rt, label+"n")
		bts := rapid.SliceOfN(rapid.Byte(), n, n).Draw(rt, label+"b")
		bts[0] |= 0x80
		v = new(gobig.Int).SetBytes(bts)
	case 4: // content length crossing DER length-form boundaries
		n := rapid.SampledFrom([]int{126, 127, 128, 129, 255, 256, 257}).Draw(rt, label+"n")
		bts := rapid.SliceOfN(rapid.Byte(), n, n).Draw(rt, label+"b")
		bts[0] = bts[0]&0x7f | 0x01
		v = new(gobig.Int).SetBytes(bts)
	default:
		n := rapid.IntRange(0, 625).Draw(rt, label+"n")
		if cls < 9 {
			n = n % 40
		}
		bts := rapid.SliceOfN(rapid.Byte(), n, n).Draw(rt, label+"b")
		v = new(gobig.Int).SetBytes(bts)
		if rapid.IntRange(0, 3).Draw(rt, label+"s") == 0 {
			v.Neg(v)
		}
	}
	return v
}

func c15GenList(rt *rapid.T) []*gobig.Int {
	var n int
	switch rapid.IntRange(0, 9).Draw(rt, "lencls") {
	case 0:
		n = rapid.SampledFrom([]int{0, 1, 2}).Draw(rt, "len")
	case 1:
		n = rapid.SampledFrom([]int{126, 127, 128, 129, 255, 256, 257, 300}).Draw(rt, "len")
	case 2:
		n = rapid.IntRange(0, 300).Draw(rt, "len")
	default:
		n = rapid.IntRange(0, 12).Draw(rt, "len")
	}
	l := make([]*gobig.Int, n)
	if n > 40 && rapid.IntRange(0, 2).Draw(rt, "bulk") > 0 {
		// large lists: one drawn size for all entries so the total crosses 64 KiB cheaply
		sz := rapid.SampledFrom([]int{0, 1, 100, 217, 218, 219, 255, 256, 520, 625}).Draw(rt, "bulksz")
		seedb := rapid.SliceOfN(rapid.Byte(), 8, 8).Draw(rt, "bulkseed")
		for i := range l {
			h := sha256.Sum256(append(seedb, byte(i), byte(i>>8)))
			var bts []byte
			for len(bts) < sz {
				bts = append(bts, h[:]...)
				h = sha256.Sum256(h[:])
			}
			l[i] = new(gobig.Int).SetBytes(bts[:sz])
			if h[0]&7 == 0 {
				l[i].Neg(l[i])
			}
		}
		return l
	}
	for i := range l {
		l[i] = c15GenInt(rt, fmt.Sprintf("e%d_", i))
	}
	return l
}

func toGabi(l []*gobig.Int) []*big.Int {
	out := make([]*big.Int, len(l))
	for i, v := range l {
		out[i] = big.Convert(new(gobig.Int).Set(v))
	}
	return out
}

func c15Nontrivial(l []*gobig.Int, issig bool) (bool, string) {
	if issig {
		return true, "issig"
	}
	total := 0
	cls := ""
	for _, v := range l {
		bl := (v.BitLen() + 7) / 8
		total += bl + 4
		if v.Sign() < 0 {
			cls = "negative"
		} else if v.BitLen() > 0 && v.BitLen()%8 == 0 {
			cls = "lead0x80"
		} else if bl >= 128 && cls == "" {
			cls = "longform"
		}
	}
	if total >= 65536 {
		return true, "total>=64KiB"
	}
	return cls != "", cls
}

type c15Vector struct {
	Issig  bool     `json:"issig"`
	Values []string `json:"values"` // decimal
	Hash   string   `json:"hash"`   // hex of library result
}

func TestVF_C15_HashCommit(t *testing.T) {
	rec := vfh.New(t, "C15")
	defer rec.Flush()
	var vectors []c15Vector
	wantVectors := rec.N(0, 2000)

	rec.Check(func(rt *rapid.T) {
		l := c15GenList(rt)
		issig := rapid.Bool().Draw(rt, "issig")
		got := HashCommit(toGabi(l), issig).Go()
		want := refHashCommit(l, issig)
		nt, cls := c15Nontrivial(l, issig)
		if cls == "" {
			cls = "plain"
		}
		rec.Case("hashcommit/"+cls, nt, "hc|"+hex.EncodeToString(refHashCommitBytesDigest(l, issig)))
		rec.Sample(func() any {
			return map[string]any{"kind": "HashCommit", "issig": issig, "len": len(l), "first": firstStr(l), "hash": got.Text(16)}
		})
		if got.Cmp(want) != 0 {
			rec.Fail(rt, "hashcommit-differs-from-reference", map[string]any{"issig": issig, "values": strs(l), "got": got.Text(16), "want": want.Text(16)})
			return
		}
		if len(vectors) < wantVectors && len(l) <= 20 {
			vectors = append(vectors, c15Vector{issig, strs(l), got.Text(16)})
		}
		// metamorphic: any difference in marker, count, order or integer changes the digest
		type variant struct {
			name string
			l    []*gobig.Int
			sig  bool
		}
		vars := []variant{{"flip-marker", l, !issig}}
		ins := rapid.IntRange(0, len(l)).Draw(rt, "inspos")
		x := c15GenInt(rt, "ins_")
		vars = append(vars, variant{"insert", append(append(append([]*gobig.Int{}, l[:ins]...), x), l[ins:]...), issig})
		if len(l) > 0 {
			i := rapid.IntRange(0, len(l)-1).Draw(rt, "pos")
			vars = append(vars, variant{"remove", append(append([]*gobig.Int{}, l[:i]...), l[i+1:]...), issig})
			ch := append([]*gobig.Int{}, l...)
			delta := rapid.SampledFrom([]int64{1, -1, 256, -256}).Draw(rt, "delta")
			ch[i] = new(gobig.Int).Add(l[i], gobig.NewInt(delta))
			vars = append(vars, variant{"change", ch, issig})
			ng := append([]*gobig.Int{}, l...)
			ng[i] = new(gobig.Int).Neg(l[i])
			if l[i].Sign() != 0 {
				vars = append(vars, variant{"negate", ng, issig})
			}
			j := rapid.IntRange(0, len(l)-1).Draw(rt, "pos2")
			if l[i].Cmp(l[j]) != 0 {
				sw := append([]*gobig.Int{}, l...)
				sw[i], sw[j] = sw[j], sw[i]
				vars = append(vars, variant{"swap", sw, issig})
			}
		}
		for _, v := range vars {
			h2 := HashCommit(toGabi(v.l), v.sig).Go()
			rec.Case("metamorphic/"+v.name, true, "mm|"+v.name+"|"+hex.EncodeToString(refHashCommitBytesDigest(v.l, v.sig)))
			if h2.Cmp(got) == 0 {
				rec.Fail(rt, "hashcommit-collision-"+v.name, map[string]any{"issig": issig, "values": strs(l), "variant": strs(v.l)})
				return
			}
			if h2.Cmp(refHashCommit(v.l, v.sig)) != 0 {
				rec.Fail(rt, "hashcommit-differs-from-reference", map[string]any{"issig": v.sig, "values": strs(v.l)})
				return
			}
		}
	})

	if wantVectors > 0 && !t.Failed() {
		c15PythonCrossCheck(t, rec, vectors)
	}
}

func refHashCommitBytesDigest(l []*gobig.Int, issig bool) []byte {
	h := sha256.Sum256(refHashCommitBytes(l, issig))
	return h[:]
}

func strs(l []*gobig.Int) []string {
	out := make([]string, len(l))
	for i, v := range l {
		out[i] = v.String()
	}
	return out
}

func firstStr(l []*gobig.Int) []string {
	n := len(l)
	if n > 3 {
		n = 3
	}
	out := strs(l[:n])
	for i := range out {
		if len(out[i]) > 40 {
			out[i] = out[i][:40] + fmt.Sprintf("...(%d digits)", len(out[i]))
		}
	}
	return out
}

// third implementation: /verif/pyref/hashref.py re-computes the digests of saved vectors
func c15PythonCrossCheck(t *testing.T, rec *vfh.Rec, vectors []c15Vector) {
	verif := os.Getenv("VF_VERIF")
	if verif == "" || len(vectors) == 0 {
		return
	}
	dir := t.TempDir()
	p := filepath.Join(dir, "vectors.json")
	b, _ := json.Marshal(vectors)
	if err := os.WriteFile(p, b, 0o644); err != nil {
		t.Fatalf("write vectors: %v", err)
	}
	out, err := exec.Command("python3", filepath.Join(verif, "pyref", "hashref.py"), p).CombinedOutput()
	rec.Note("python_crosscheck", string(bytes.TrimSpace(out)))
	if err != nil {
		if ee, ok := err.(*exec.ExitError); ok && ee.ExitCode() == 1 {
			rec.FailT("hashcommit-differs-from-python-reference", string(out))
			return
		}
		t.Fatalf("python cross-check could not run: %v %s", err, out)
	}
	rec.Class("python-crosscheck-vectors", int64(len(vectors)))
}

func TestVF_C15_Expansion(t *testing.T) {
	rec := vfh.New(t, "C15")
	defer rec.Flush()
	rec.Check(func(rt *rapid.T) {
		var a, b *gobig.Int
		if rapid.Bool().Draw(rt, "hasA") {
			a = c15GenInt(rt, "a_")
		}
		if rapid.Bool().Draw(rt, "hasB") {
			b = c15GenInt(rt, "b_")
		}
		index := rapid.SampledFrom([]int{0, 1, 2, 255, 256, 65535, 1<<31 - 1}).Draw(rt, "index")
		bitlen := rapid.SampledFrom([]uint{0, 1, 8, 255, 256, 257, 511, 512, 513, 1000, 2048, 2049}).Draw(rt, "bitlen")
		var ga, gb *big.Int
		if a != nil {
			ga = big.Convert(new(gobig.Int).Set(a))
		}
		if b != nil {
			gb = big.Convert(new(gobig.Int).Set(b))
		}
		got := GetHashNumber(ga, gb, index, bitlen).Go()
		want := refGetHashNumber(a, b, index, bitlen)
		rec.Case(fmt.Sprintf("expansion/blocks=%d", (bitlen+255)/256), bitlen > 256 || a == nil || b == nil,
			fmt.Sprintf("gh|%v|%v|%d|%d", a, b, index, bitlen))
		rec.Sample(func() any {
			return map[string]any{"kind": "GetHashNumber", "a": fmt.Sprint(a), "b": fmt.Sprint(b), "index": index, "bitlen": bitlen, "bits_out": got.BitLen()}
		})
		if got.Cmp(want) != 0 {
			rec.Fail(rt, "gethashnumber-differs-from-reference", map[string]any{"a": fmt.Sprint(a), "b": fmt.Sprint(b), "index": index, "bitlen": bitlen, "got": got.Text(16), "want": want.Text(16)})
			return
		}
		// input must not be modified
		if (a != nil && ga.Go().Cmp(a) != 0) || (b != nil && gb.Go().Cmp(b) != 0) {
			rec.Fail(rt, "gethashnumber-modifies-input", nil)
		}
	})
}

func TestVF_C15_AttrHash(t *testing.T) {
	rec := vfh.New(t, "C15")
	defer rec.Flush()
	rec.Check(func(rt *rapid.T) {
		n := rapid.SampledFrom([]int{0, 1, 31, 32, 33, 55, 56, 63, 64, 65, 119, 120, 128, 600}).Draw(rt, "n")
		if rapid.Bool().Draw(rt, "anylen") {
			n = rapid.IntRange(0, 600).Draw(rt, "n2")
		}
		in := rapid.SliceOfN(rapid.Byte(), n, n).Draw(rt, "in")
		got := IntHashSha256(in).Go()
		d := sha256.Sum256(in)
		want := new(gobig.Int).SetBytes(d[:])
		rec.Case("attrhash", n > 0, "ah|"+hex.EncodeToString(d[:]))
		rec.Sample(func() any { return map[string]any{"kind": "IntHashSha256", "len": n, "hash": got.Text(16)} })
		if got.Cmp(want) != 0 || got.Sign() < 0 {
			rec.Fail(rt, "inthashsha256-differs-from-reference", map[string]any{"in": hex.EncodeToString(in), "got": got.Text(16)})
		}
	})
}

// FuzzVF_C15 decodes bytes into (issig, integer list) and compares library and reference.
func FuzzVF_C15(f *testing.F) {
	f.Add([]byte{0})
	f.Add([]byte{1, 1, 0x80, 2, 0xff, 0xff})
	f.Add([]byte{0, 3, 0, 0, 1, 0x81, 0x7f})
	f.Add(append([]byte{1, 0xff}, bytes.Repeat([]byte{0x80}, 200)...))
	f.Fuzz(func(t *testing.T, data []byte) {
		if len(data) == 0 {
			return
		}
		issig := data[0]&1 == 1
		data = data[1:]
		var l []*gobig.Int
		for len(data) > 0 && len(l) < 300 {
			n := int(data[0] & 0x7f)
			neg := data[0]&0x80 != 0
			data = data[1:]
			if n > len(data) {
				n = len(data)
			}
			v := new(gobig.Int).SetBytes(data[:n])
			if neg {
				v.Neg(v)
			}
			l = append(l, v)
			data = data[n:]
		}
		got := HashCommit(toGabi(l), issig).Go()
		if want := refHashCommit(l, issig); got.Cmp(want) != 0 {
			t.Fatalf("VF-VIOLATION hashcommit-differs-from-reference issig=%v values=%v", issig, strs(l))
		}
	})
}
