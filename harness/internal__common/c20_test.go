package common

// C20 (S3) - the process-wide generator never hands the same keystream block to two callers:
// concurrent reads of 1..200 bytes from a CPRNG with a known key are mapped back to counter
// values; every read must be a run of consecutive counters, runs must be disjoint and their
// union must be exactly [0, final counter).

import (
	"bytes"
	"crypto/aes"
	"encoding/binary"
	"fmt"
	"math/bits"
	"math/rand"
	"reflect"
	"runtime"
	"sync"
	"testing"
	"unsafe"

	"github.com/privacybydesign/gabi/big"
	"github.com/privacybydesign/gabi/internal/vfh"
)

func TestVF_C20_Keystream(t *testing.T) {
	rec := vfh.New(t, "C20")
	defer rec.Flush()
	reps := rec.N(16, 600)
	defer runtime.GOMAXPROCS(runtime.GOMAXPROCS(0))
	for rep := 0; rep < reps; rep++ {
		if !rec.Mine(rep) {
			continue
		}
		g := []int{2, 4, 16, 64}[rep%4]
		runtime.GOMAXPROCS([]int{2, 4, 16, 1}[(rep/4)%4])
		var seed [32]byte
		binary.LittleEndian.PutUint64(seed[:], uint64(rec.Seed())*7919+uint64(rep))
		c, err := NewCPRNG(&seed)
		if err != nil {
			t.Fatal(err)
		}
		per := 4000 / g
		reads := make([][][]byte, g)
		var wg sync.WaitGroup
		start := make(chan struct{})
		for i := 0; i < g; i++ {
			wg.Add(1)
			go func(i int) {
				defer wg.Done()
				prng := rand.New(rand.NewSource(int64(rep*1000 + i)))
				<-start
				for j := 0; j < per; j++ {
					buf := make([]byte, 1+prng.Intn(200))
					if n, err := c.Read(buf); err != nil || n != len(buf) {
						buf = nil
					}
					reads[i] = append(reads[i], buf)
					if j%50 == 0 {
						// the public entry points on the process-wide generator, for the race detector
						_ = FastRandomBigInt(big.NewInt(1 << 40))
						_ = RandomQR(big.NewInt(1000003 * 999983))
					}
				}
			}(i)
		}
		close(start)
		wg.Wait()
		// the generator's final counter, observed through its API only: the block handed out to one
		// more read after all goroutines have finished
		blk, _ := aes.NewCipher(seed[:])
		var last, lastPt [16]byte
		if _, err := c.Read(last[:]); err != nil {
			t.Fatal(err)
		}
		blk.Decrypt(lastPt[:], last[:])
		total := binary.LittleEndian.Uint64(lastPt[:8])
		if total > 1<<24 {
			rec.FailT("keystream-partition-violated", map[string]any{"goroutines": g, "what": "final read is not a keystream block of a plausible counter"})
			continue
		}
		stream := make([][16]byte, total)
		index := make(map[[16]byte]uint64, total)
		for k := uint64(0); k < total; k++ {
			var pt [16]byte
			binary.LittleEndian.PutUint64(pt[:], k)
			blk.Encrypt(stream[k][:], pt[:])
			index[stream[k]] = k
		}
		owner := make([]int32, total)
		for i := range owner {
			owner[i] = -1
		}
		bad := ""
		var sum uint64
		type shortRead struct {
			g, j int
			buf  []byte
		}
		var shorts []shortRead
		for i := range reads {
			for j, buf := range reads[i] {
				if buf == nil {
					bad = "read-error"
					continue
				}
				nb := uint64((len(buf)-1)/16 + 1)
				sum += nb
				if len(buf) < 16 {
					// a read shorter than a block does not identify its counter uniquely: matched below
					shorts = append(shorts, shortRead{i, j, buf})
					continue
				}
				var b [16]byte
				copy(b[:], buf[:16])
				iv, found := index[b]
				if !found {
					bad = fmt.Sprintf("read %d of goroutine %d is not keystream of any counter", j, i)
					continue
				}
				for b := uint64(0); b < nb; b++ {
					k := iv + b
					lo, hi := int(b*16), int(b*16+16)
					if hi > len(buf) {
						hi = len(buf)
					}
					if k >= total || !bytes.Equal(stream[k][:hi-lo], buf[lo:hi]) {
						bad = fmt.Sprintf("read %d of goroutine %d is not a run of consecutive counters", j, i)
						break
					}
					if owner[k] != -1 {
						bad = fmt.Sprintf("keystream block %d handed to two reads", k)
						break
					}
					owner[k] = int32(i)
				}
			}
		}
		// short reads: the counters not owned by any long read must be matchable one-to-one to the
		// short reads by keystream prefix (Kuhn's augmenting-path matching)
		if bad == "" {
			var free []uint64
			for k := range owner {
				if owner[k] == -1 {
					free = append(free, uint64(k))
				}
			}
			if len(free) != len(shorts) {
				bad = fmt.Sprintf("%d counters are not covered by long reads but there are %d short reads", len(free), len(shorts))
			} else {
				matchOf := make([]int, len(free)) // free index -> short read index
				for i := range matchOf {
					matchOf[i] = -1
				}
				var try func(s int, seen []bool) bool
				try = func(s int, seen []bool) bool {
					for fi, k := range free {
						if seen[fi] || !bytes.Equal(stream[k][:len(shorts[s].buf)], shorts[s].buf) {
							continue
						}
						seen[fi] = true
						if matchOf[fi] == -1 || try(matchOf[fi], seen) {
							matchOf[fi] = s
							return true
						}
					}
					return false
				}
				for s := range shorts {
					if !try(s, make([]bool, len(free))) {
						bad = fmt.Sprintf("short read %d of goroutine %d cannot be assigned a keystream block of its own", shorts[s].j, shorts[s].g)
						break
					}
				}
				if bad == "" {
					for fi, k := range free {
						owner[k] = int32(shorts[matchOf[fi]].g)
					}
				}
			}
		}
		if bad == "" && sum != total {
			bad = fmt.Sprintf("blocks consumed by reads (%d) differ from the final counter (%d)", sum, total)
		}
		if bad == "" {
			for k := range owner {
				if owner[k] == -1 {
					bad = fmt.Sprintf("keystream block %d skipped", k)
					break
				}
			}
		}
		rec.Case(fmt.Sprintf("S3-keystream/goroutines=%d", g), true, fmt.Sprintf("ks|%d|%d|%d", rep, g, rec.Seed()))
		rec.Class("keystream-blocks", int64(total))
		if rep < 2 {
			rec.Sample(func() any { return map[string]any{"script": "S3", "goroutines": g, "reads": g * per, "blocks": total} })
		}
		if bad != "" {
			rec.FailT("keystream-partition-violated", map[string]any{"goroutines": g, "what": bad})
		}
	}
}

// TestVF_C20_KeystreamLongRun: the generator after a long life. The block counter is moved (white box,
// by reflection on the integer field "counter") to just below 2^32, 2^33 and 2^48, then goroutines
// read across the boundary. Every block handed out must be a fresh one: decrypted with the known
// key, the blocks must be exactly the counters from the set value upwards, none below it (those
// were handed out earlier in the generator's life) and none twice.
func TestVF_C20_KeystreamLongRun(t *testing.T) {
	rec := vfh.New(t, "C20")
	defer rec.Flush()
	for rep := 0; rep < rec.N(12, 120); rep++ {
		if !rec.Mine(rep) {
			continue
		}
		var seed [32]byte
		binary.LittleEndian.PutUint64(seed[:], uint64(rec.Seed())*104729+uint64(rep))
		c, err := NewCPRNG(&seed)
		if err != nil {
			t.Fatal(err)
		}
		boundary := []uint64{1 << 32, 1 << 33, 1 << 48, 1 << 32}[rep%4]
		back := uint64(1 + rep%37)
		start := boundary - back
		f := reflect.ValueOf(c).Elem().FieldByName("counter")
		if !f.IsValid() {
			rec.Class("whitebox-unavailable/CPRNG.counter", 1)
			rec.Case("S3-long-run/unavailable", true, "lr-unavailable")
			return
		}
		f = reflect.NewAt(f.Type(), unsafe.Pointer(f.UnsafeAddr())).Elem()
		switch {
		case f.Kind() == reflect.Uint64 || f.Kind() == reflect.Uint32 || f.Kind() == reflect.Uint:
			if f.OverflowUint(start) {
				// the counter cannot even hold a value this large: it wraps earlier; start just below its top
				start = (uint64(1) << (8 * f.Type().Size())) - back
				boundary = start + back
			}
			f.SetUint(start)
		case f.Kind() == reflect.Struct && f.NumField() > 0 && f.Field(f.NumField()-1).Kind() == reflect.Uint64:
			v := f.Field(f.NumField() - 1) // sync/atomic.Uint64{_, _, v}
			reflect.NewAt(v.Type(), unsafe.Pointer(v.UnsafeAddr())).Elem().SetUint(start)
		default:
			rec.Class("whitebox-unavailable/CPRNG.counter", 1)
			rec.Case("S3-long-run/unavailable", true, "lr-unavailable")
			return
		}
		g := []int{1, 2, 8}[rep%3]
		blocks := make([][][16]byte, g)
		var wg sync.WaitGroup
		for i := 0; i < g; i++ {
			wg.Add(1)
			go func(i int) {
				defer wg.Done()
				for j := 0; j < 64/g; j++ {
					var b [16]byte
					if _, err := c.Read(b[:]); err == nil {
						blocks[i] = append(blocks[i], b)
					}
				}
			}(i)
		}
		wg.Wait()
		blk, _ := aes.NewCipher(seed[:])
		seen := map[uint64]bool{}
		bad := ""
		n := 0
		for i := range blocks {
			for _, b := range blocks[i] {
				var pt [16]byte
				blk.Decrypt(pt[:], b[:])
				v := binary.LittleEndian.Uint64(pt[:8])
				n++
				switch {
				case !bytes.Equal(pt[8:], make([]byte, 8)):
					bad = "a block handed out is not a keystream block of the generator"
				case v < start:
					bad = fmt.Sprintf("block of counter %d handed out again after the counter had passed %d (it was handed out earlier in the generator's life)", v, start)
				case seen[v]:
					bad = fmt.Sprintf("block of counter %d handed out twice", v)
				}
				seen[v] = true
			}
		}
		rec.Case(fmt.Sprintf("S3-long-run/boundary=2^%d/goroutines=%d", bits.Len64(boundary)-1, g), true, fmt.Sprintf("lr|%d|%d|%d", boundary, back, rep))
		if rep == 0 {
			rec.Sample(func() any {
				return map[string]any{"script": "S3-long-run", "counter_set_to": start, "blocks_read": n, "goroutines": g}
			})
		}
		if bad == "" && uint64(len(seen)) != uint64(n) {
			bad = "fewer distinct blocks than reads"
		}
		if bad != "" {
			rec.FailT("keystream-block-handed-out-twice:long-run", map[string]any{"counter_set_to": start, "what": bad, "goroutines": g})
		}
	}
}
