package big

// C18 (a) - non-negative integers survive JSON (base64 and decimal input forms), XML and
// binary/CBOR round trips; the text encodings refuse negative integers instead of altering them.

import (
	"encoding/json"
	"encoding/xml"
	"fmt"
	gobig "math/big"
	"testing"

	"github.com/fxamacker/cbor"
	"github.com/privacybydesign/gabi/internal/vfh"
	"pgregory.net/rapid"
)

type xmlWrap struct {
	XMLName xml.Name `xml:"w"`
	V       *Int     `xml:"v"`
}

type jsonWrap struct {
	V *Int `json:"v"`
}

type cborWrap struct {
	V *Int
}

func genInt(rt *rapid.T) (*gobig.Int, string) {
	switch rapid.IntRange(0, 6).Draw(rt, "cls") {
	case 0:
		return gobig.NewInt(int64(rapid.SampledFrom([]int{0, 1, 2, 127, 128, 255, 256, 65535, 65536}).Draw(rt, "c"))), "boundary-small"
	case 1:
		k := uint(rapid.SampledFrom([]int{7, 8, 9, 63, 64, 65, 255, 256, 257, 1023, 1024, 2047, 2048, 4096, 5000}).Draw(rt, "k"))
		v := new(gobig.Int).Lsh(gobig.NewInt(1), k)
		return v.Sub(v, gobig.NewInt(int64(rapid.IntRange(0, 1).Draw(rt, "m1")))), "2^k,2^k-1"
	case 2: // byte form with leading zero bytes when padded: small value, long zero run below the top byte
		n := rapid.IntRange(2, 64).Draw(rt, "n")
		b := make([]byte, n)
		b[0] = 1
		b[n-1] = byte(rapid.IntRange(0, 255).Draw(rt, "low"))
		return new(gobig.Int).SetBytes(b), "zero-run"
	case 3: // top byte 0x80.. (would be negative in a signed reading)
		n := rapid.IntRange(1, 300).Draw(rt, "n")
		b := rapid.SliceOfN(rapid.Byte(), n, n).Draw(rt, "b")
		b[0] |= 0x80
		return new(gobig.Int).SetBytes(b), "top-bit-set"
	default:
		n := rapid.IntRange(0, 625).Draw(rt, "n")
		return new(gobig.Int).SetBytes(rapid.SliceOfN(rapid.Byte(), n, n).Draw(rt, "b")), "random"
	}
}

func TestVF_C18_BigInt(t *testing.T) {
	rec := vfh.New(t, "C18")
	defer rec.Flush()
	rec.Check(func(rt *rapid.T) {
		v, cls := genInt(rt)
		neg := rapid.IntRange(0, 4).Draw(rt, "neg") == 0 && v.Sign() != 0
		if neg {
			v = new(gobig.Int).Neg(v)
			cls = "negative/" + cls
		}
		x := Convert(new(gobig.Int).Set(v))
		rec.Case("integer/"+cls, cls != "random", "int|"+v.String())
		rec.Sample(func() any {
			return map[string]any{"kind": "big.Int round trips", "class": cls, "bits": v.BitLen(), "negative": neg}
		})
		fail := func(sig string, extra string) {
			rec.Fail(rt, sig, map[string]any{"value": v.String(), "class": cls, "what": extra})
		}
		same := func(got *Int) bool { return got != nil && got.Go().Cmp(v) == 0 }

		// ---- JSON, base64 form
		js, err := json.Marshal(jsonWrap{x})
		if neg {
			if err == nil {
				var back jsonWrap
				if e := json.Unmarshal(js, &back); e == nil && !same(back.V) {
					fail("negative-integer-altered-by-json-round-trip", string(js))
					return
				}
			}
		} else {
			if err != nil {
				fail("json-marshal-error", err.Error())
				return
			}
			var back jsonWrap
			if err := json.Unmarshal(js, &back); err != nil || !same(back.V) {
				fail("json-round-trip-changes-integer", fmt.Sprintf("%s -> %v (%v)", js, back.V, err))
				return
			}
		}
		// ---- JSON, decimal number input form
		var dec jsonWrap
		err = json.Unmarshal([]byte(`{"v":`+v.String()+`}`), &dec)
		if neg {
			if err == nil && !same(dec.V) {
				fail("negative-decimal-json-accepted-as-other-number", dec.V.String())
				return
			}
			if err == nil {
				fail("negative-decimal-json-accepted", dec.V.String())
				return
			}
		} else if err != nil || !same(dec.V) {
			fail("decimal-json-form-misread", fmt.Sprintf("%v (%v)", dec.V, err))
			return
		}
		// ---- XML
		xs, err := xml.Marshal(xmlWrap{V: x})
		if err == nil {
			var back xmlWrap
			e := xml.Unmarshal(xs, &back)
			if neg {
				if e == nil && !same(back.V) {
					fail("negative-integer-altered-by-xml-round-trip", string(xs))
					return
				}
				if e == nil {
					fail("negative-integer-accepted-from-xml", string(xs))
					return
				}
			} else if e != nil || !same(back.V) {
				fail("xml-round-trip-changes-integer", fmt.Sprintf("%s -> %v (%v)", xs, back.V, e))
				return
			}
		} else if !neg {
			fail("xml-marshal-error", err.Error())
			return
		}
		// ---- binary and CBOR (non-negative only: these encodings are unsigned by design)
		if !neg {
			bts, err := x.MarshalBinary()
			var b2 Int
			if err != nil || b2.UnmarshalBinary(bts) != nil || !same(&b2) {
				fail("binary-round-trip-changes-integer", "")
				return
			}
			cb, err := cbor.Marshal(cborWrap{x}, cbor.EncOptions{})
			if err != nil {
				fail("cbor-marshal-error", err.Error())
				return
			}
			var back cborWrap
			if err := cbor.Unmarshal(cb, &back); err != nil || !same(back.V) {
				fail("cbor-round-trip-changes-integer", fmt.Sprintf("%v (%v)", back.V, err))
				return
			}
		}
		// garbled text forms must be refused, not read as another number
		for _, g := range []string{`{"v":"!!!"}`, `{"v":"AQ="}`, `{"v":1.5}`, `{"v":"12 3"}`, `{"v":true}`} {
			var gb jsonWrap
			if err := json.Unmarshal([]byte(g), &gb); err == nil && gb.V != nil && g != `{"v":"AQ="}` {
				fail("garbled-json-integer-accepted", g)
				return
			}
		}
	})
}
