package safeprime

// C19 (safe primes): recognition against a sieve, generation of the requested size.

import (
	"fmt"
	gobig "math/big"
	"testing"

	"github.com/privacybydesign/gabi/big"
	"github.com/privacybydesign/gabi/internal/vfh"
	"pgregory.net/rapid"
)

func TestVF_C19_SafePrimeRecognition(t *testing.T) {
	rec := vfh.New(t, "C19")
	defer rec.Flush()
	const lim = 1 << 16
	sieve := make([]bool, lim+1)
	for i := 2; i <= lim; i++ {
		if !sieve[i] {
			for j := i * i; j <= lim; j += i {
				sieve[j] = true
			}
		}
	}
	isPrime := func(x int) bool { return x >= 2 && !sieve[x] }
	for x := rec.Shard(); x <= lim; x += rec.NShards() {
		want := isPrime(x) && isPrime((x-1)/2) && x > 2
		got := ProbablySafePrime(big.NewInt(int64(x)), 20)
		rec.Case("ProbablySafePrime/exhaustive", want || isPrime(x), fmt.Sprintf("sp|%d", x))
		if got != want {
			rec.FailT("ProbablySafePrime-wrong", map[string]any{"x": x, "got": got, "want": want})
		}
	}
	rec.SetExhaustive(true)
}

func TestVF_C19_SafePrimeGenerate(t *testing.T) {
	rec := vfh.New(t, "C19")
	defer rec.Flush()
	rec.Check(func(rt *rapid.T) {
		// sizes below 16 bits are outside the generator's domain: it fixes the two top bits of
		// (p-1)/2, and for some tiny sizes no safe prime of that shape exists (it would not return)
		bits := rapid.IntRange(16, rec.N(160, 256)).Draw(rt, "bits")
		if rapid.IntRange(0, 3).Draw(rt, "small") == 0 {
			bits = rapid.IntRange(16, 40).Draw(rt, "smallbits")
		}
		p, err := Generate(bits, nil)
		rec.Case(fmt.Sprintf("Generate/bits<=%d", (bits+31)/32*32), true, fmt.Sprintf("gen|%d|%v", bits, p))
		rec.Sample(func() any { return map[string]any{"helper": "safeprime.Generate", "bits": bits} })
		if err != nil || p == nil {
			rec.Fail(rt, "Generate-error", map[string]any{"bits": bits, "err": fmt.Sprint(err)})
			return
		}
		q := new(gobig.Int).Rsh(p.Go(), 1)
		if p.BitLen() != bits {
			rec.Fail(rt, "Generate-wrong-size", map[string]any{"bits": bits, "p": p.String()})
			return
		}
		if !p.Go().ProbablyPrime(32) || !q.ProbablyPrime(32) {
			rec.Fail(rt, "Generate-not-a-safe-prime", map[string]any{"bits": bits, "p": p.String()})
		}
	})
}
