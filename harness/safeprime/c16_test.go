package safeprime

// C16 (workers): every way of stopping GenerateConcurrent leaves no goroutine behind and all
// delivered values are safe primes of the requested size.

import (
	"fmt"
	"runtime"
	"testing"
	"time"

	"github.com/privacybydesign/gabi/big"
	"github.com/privacybydesign/gabi/internal/vfh"
)

func TestVF_C16_WorkerStop(t *testing.T) {
	rec := vfh.New(t, "C16")
	defer rec.Flush()
	styles := []string{"close-after-k", "send-after-k", "close-immediately", "send-immediately", "close-after-k-then-idle"}
	reps := rec.N(40, 200)
	item := 0
	for rep := 0; rep < reps; rep++ {
		for _, style := range styles {
			for _, bits := range []int{32, 33, 64, 65, 80} {
				item++
				if !rec.Mine(item) {
					continue
				}
				k := rep % 5
				base := runtime.NumGoroutine()
				stop := make(chan struct{})
				ints, errs := GenerateConcurrent(bits, stop)
				var got []*big.Int
				read := func(n int) {
					for i := 0; i < n; i++ {
						select {
						case p := <-ints:
							got = append(got, p)
						case err := <-errs:
							rec.FailT("safe-prime-generation-error", map[string]any{"err": err.Error()})
							return
						case <-time.After(2 * time.Minute):
							t.Fatalf("no safe prime of %d bits within 2 minutes (inconclusive)", bits)
						}
					}
				}
				switch style {
				case "close-after-k":
					read(k)
					close(stop)
				case "send-after-k":
					read(k)
					stop <- struct{}{}
				case "close-immediately":
					close(stop)
				case "send-immediately":
					stop <- struct{}{}
				case "close-after-k-then-idle":
					read(k)
					time.Sleep(30 * time.Millisecond) // let the workers fill the result buffer
					close(stop)
				}
				for _, p := range got {
					if p == nil || p.BitLen() != bits || !ProbablySafePrime(p, 30) {
						rec.FailT("concurrent-generator-delivers-non-safe-prime", map[string]any{"bits": bits, "p": fmt.Sprint(p)})
					}
				}
				deadline := time.Now().Add(5 * time.Second)
				left := 0
				for {
					left = runtime.NumGoroutine() - base
					if left <= 0 || time.Now().After(deadline) {
						break
					}
					time.Sleep(10 * time.Millisecond)
				}
				rec.Case("worker-stop/"+style, true, fmt.Sprintf("ws|%s|%d|%d|%d", style, bits, k, rep))
				if rep == 0 {
					rec.Sample(func() any {
						return map[string]any{"stop_style": style, "bits": bits, "results_read_before_stop": k, "GOMAXPROCS": runtime.GOMAXPROCS(0)}
					})
				}
				if left > 0 {
					rec.FailT("safe-prime-workers-left-running:"+style, map[string]any{"bits": bits, "results_read": k, "goroutines_left": left})
				}
			}
		}
	}
}
