#!/usr/bin/env python3
"""Third, independent implementation of gabi's Fiat-Shamir hash (hashlib only).
Usage: hashref.py vectors.json   (list of {issig, values[decimal], hash[hex]})
Exit 0 if every digest matches, 1 on the first mismatch."""
import hashlib, json, sys

def der_len(n):
    if n < 128:
        return bytes([n])
    b = n.to_bytes((n.bit_length() + 7) // 8, "big")
    return bytes([0x80 | len(b)]) + b

def der_int(v):
    if v == 0:
        c = b"\x00"
    elif v > 0:
        c = v.to_bytes(v.bit_length() // 8 + 1, "big")          # always leaves a 0 sign bit
    else:
        L = 1
        while v < -(1 << (8 * L - 1)):
            L += 1
        c = v.to_bytes(L, "big", signed=True)
    return b"\x02" + der_len(len(c)) + c

def hash_commit(values, issig):
    body = b""
    if issig:
        body += b"\x01\x01\xff"
    body += der_int(len(values))
    for v in values:
        body += der_int(v)
    return int.from_bytes(hashlib.sha256(b"\x30" + der_len(len(body)) + body).digest(), "big")

def main():
    vecs = json.load(open(sys.argv[1]))
    for i, v in enumerate(vecs):
        want = hash_commit([int(x) for x in v["values"]], v["issig"])
        if want != int(v["hash"], 16):
            print("MISMATCH vector %d: issig=%s values=%s lib=%s py=%x" % (i, v["issig"], v["values"], v["hash"], want))
            return 1
    print("python reference agrees on %d vectors" % len(vecs))
    return 0

if __name__ == "__main__":
    sys.exit(main())
