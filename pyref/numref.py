#!/usr/bin/env python3
"""Independent pure-Python reference for gabi's number-theoretic helpers.
Usage: numref.py vectors.json  (list of {op, args[decimal], out[decimal], ok}); exit 1 on mismatch."""
import json, sys
from math import gcd

def jacobi(a, n):
    a %= n
    r = 1
    while a:
        while a % 2 == 0:
            a //= 2
            if n % 8 in (3, 5):
                r = -r
        a, n = n, a
        if a % 4 == 3 and n % 4 == 3:
            r = -r
        a %= n
    return r if n == 1 else 0

def main():
    vecs = json.load(open(sys.argv[1]))
    for i, v in enumerate(vecs):
        a = [int(x) for x in v["args"]]
        out = [int(x) for x in v.get("out") or []]
        op = v["op"]
        bad = None
        if op == "modinverse":
            exists = gcd(a[0], a[1]) == 1
            if exists != v["ok"]:
                bad = "existence"
            elif exists and not (0 < out[0] < a[1] and a[0] * out[0] % a[1] == 1):
                bad = "value"
        elif op == "foursquares":
            if any(x < 0 for x in out) or sum(x * x for x in out) != a[0]:
                bad = "sum"
        elif op == "legendre":
            if jacobi(a[0], a[1]) != out[0]:
                bad = "symbol"
        elif op == "primesqrt":
            q, p = a
            is_res = q % p == 0 or pow(q, (p - 1) // 2, p) == 1
            if is_res != v["ok"]:
                bad = "existence"
            elif is_res and not (0 <= out[0] < p and out[0] * out[0] % p == q % p):
                bad = "root"
        if bad:
            print("MISMATCH vector %d op=%s (%s): args=%s out=%s ok=%s" % (i, op, bad, v["args"], v.get("out"), v["ok"]))
            return 1
    print("python reference agrees on %d vectors" % len(vecs))
    return 0

if __name__ == "__main__":
    sys.exit(main())
