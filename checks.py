"""Registry of checks: per property the units (package, test function, bounds) the driver runs.

unit keys: pkg (harness dir name; 'root' = module root, '__' = '/'), run (test name regex),
rapid {tier: checks}, shards {tier: n}, timeout {tier: seconds}, race (bool), tiers (subset),
fuzz {name, seconds} (thorough only), env {}.
"""

CHECKS = {}

CHECKS["C15"] = {
    "level": "exploration",
    "technique": "property-based differential testing (rapid) against an independent DER/SHA-256 reference + metamorphic injectivity; native fuzzing and a Python third implementation in the thorough tier",
    "level_text": "Every generated input is compared with an independently written encoder/hash; disagreement on any input is a violation. Exploration is the right level: the function is pure, cheap, and its input space is unbounded, so volume over boundary-steered generators is what finds encoding slips.",
    "level_note": "Trusts crypto/sha256, math/big, and the harness's own 40-line DER reference (cross-checked by a Python twin in the thorough tier). Does not establish collision resistance, only agreement with the specification on generated inputs.",
    "rule": ("rapid-generated integer lists (length 0..300, entries 0..5000 bits, negatives, 0x80-leading, "
             "DER length-form boundaries, both marker values) compared with an independent DER+SHA-256 reference, "
             "plus metamorphic variants (marker flip, insert, remove, change, negate, swap) that must change the digest; "
             "GetHashNumber over (a,b,index,bitlen) and IntHashSha256 over byte strings against references. "
             "Non-trivial: list with a negative / 0x80-leading / >=128-byte entry, total >= 64 KiB, issig=true, every "
             "metamorphic variant, expansions of more than one block or with a nil operand, non-empty attribute input; "
             "distinct by SHA-256 of the reference encoding / operand tuple."),
    "assumptions": ["crypto/sha256 and math/big of the Go standard library", "python3 hashlib (thorough cross-check)"],
    "units": [
        {"pkg": "internal__common", "run": "TestVF_C15_HashCommit", "rapid": {"quick": 6000, "thorough": 60000},
         "shards": {"quick": 2, "thorough": 16}},
        {"pkg": "internal__common", "run": "TestVF_C15_Expansion", "rapid": {"quick": 4000, "thorough": 50000},
         "shards": {"quick": 1, "thorough": 4}},
        {"pkg": "internal__common", "run": "TestVF_C15_AttrHash", "rapid": {"quick": 3000, "thorough": 50000}},
    ],
}
