"""Registry of checks: per property the units (package, test function, bounds) the driver runs.

unit keys: pkg (harness dir name; 'root' = module root, '__' = '/'), run (test name regex),
rapid {tier: checks}, shards {tier: n}, timeout {tier: seconds}, race (bool), tiers (subset),
fuzz {name, seconds} (thorough only), env {}.
"""

CHECKS = {}

CHECKS["C15"] = {
    "level": "exploration",
    "technique": "property-based differential testing (rapid) against an independent DER/SHA-256 reference + metamorphic injectivity; native fuzzing and a Python third implementation in the thorough tier",
    "level_text": "Every generated input is compared with an independently written encoder/hash; disagreement on any input is a violation. Exploration is the right level: the function is pure, cheap, and its input space is unbounded, so volume over boundary-steered generators is what finds encoding slips.",
    "level_note": "Trusts crypto/sha256, math/big, and the harness's own 40-line DER reference (cross-checked by a Python twin in the thorough tier). Does not establish collision resistance, only agreement with the specification on generated inputs.",
    "rule": ("rapid-generated integer lists (length 0..300, entries 0..5000 bits, negatives, 0x80-leading, "
             "DER length-form boundaries, both marker values) compared with an independent DER+SHA-256 reference, "
             "plus metamorphic variants (marker flip, insert, remove, change, negate, swap) that must change the digest; "
             "GetHashNumber over (a,b,index,bitlen) and IntHashSha256 over byte strings against references. "
             "Non-trivial: list with a negative / 0x80-leading / >=128-byte entry, total >= 64 KiB, issig=true, every "
             "metamorphic variant, expansions of more than one block or with a nil operand, non-empty attribute input; "
             "distinct by SHA-256 of the reference encoding / operand tuple."),
    "assumptions": ["crypto/sha256 and math/big of the Go standard library", "python3 hashlib (thorough cross-check)"],
    "units": [
        {"pkg": "internal__common", "run": "TestVF_C15_HashCommit", "rapid": {"quick": 6000, "thorough": 60000},
         "shards": {"quick": 2, "thorough": 16}},
        {"pkg": "internal__common", "run": "TestVF_C15_Expansion", "rapid": {"quick": 4000, "thorough": 50000},
         "shards": {"quick": 1, "thorough": 4}},
        {"pkg": "internal__common", "run": "TestVF_C15_AttrHash", "rapid": {"quick": 3000, "thorough": 50000}},
        {"pkg": "root", "run": "TestVF_C15_E2E", "rapid": {"quick": 60, "thorough": 600}, "shards": {"quick": 4, "thorough": 16}},
        {"pkg": "internal__common", "fuzz": "FuzzVF_C15", "run": "FuzzVF_C15", "tiers": ["thorough"], "seconds": {"thorough": 120}, "workers": 8},
    ],
}

CHECKS["C05"] = {
    "level": "exploration",
    "technique": "property-based testing (rapid) with a trapdoor forger: equation-valid signatures for exponents of known class (prime/composite, inside/outside the interval) + single-component alterations; oracle = construction knowledge; every signature verified twice and all verdicts re-checked at the end of a case (state must not survive a verification); empty message blocks",
    "level_text": "Generated message blocks over boundary sizes are signed by the library and by a harness-side signer that knows p'q'; Verify must accept exactly honest, randomised and prime-inside-interval signatures and reject every equation-valid signature with a composite or out-of-interval exponent and every altered signature/block/key/keyshare contribution. Exploration: the input space is unbounded, classes at the interval boundaries are hit by construction.",
    "level_note": "Trusts math/big (ModInverse, Exp, ProbablyPrime for locating primes next to the interval ends); composites are composite by construction. Unforgeability without the private key is not testable and not claimed.",
    "rule": ("one case = key (toy Ln=320 / 1024 / 2048) x message block of 1..9 boundary-class entries; evaluations count every Verify verdict "
             "checked (honest, 1..5 randomisations, ~12 forged exponent classes, keyshare variants, ~15 alterations). Non-trivial: forged "
             "equation-valid signatures, randomised signatures, alterations, honest blocks with an entry >= Lm bits; distinct by (key, class vector, kind, parameter)."),
    "assumptions": ["math/big", "harness signer cross-checked against the issuer's A on every case (control)"],
    "units": [
        {"pkg": "root", "run": "TestVF_C05", "rapid": {"quick": 60, "thorough": 700},
         "shards": {"quick": 6, "thorough": 16}, "timeout": {"quick": 400, "thorough": 3000}},
    ],
}

CHECKS["C01"] = {
    "level": "exploration",
    "technique": "property-based testing (rapid) with an adversarial prover that knows all secrets and the group order (split attack, k*ord response shifts across the range boundary) + single/pairwise field alterations; oracle = ground truth of the signed values; alterations also made in place on objects that were already verified; disclosed values shifted by multiples of the group exponent",
    "level_text": "For generated credentials and disclosure sets the harness presents honest proofs, null-deviation controls, every single and sampled pairwise alteration, equation-valid split forgeries and order-shifted responses to ProofD.Verify and ProofList.Verify; after ACCEPT the reported values must equal the signed exponents, indices must not be both disclosed and hidden, responses must be in range; honest, control and in-range-shifted proofs must be accepted. Soundness against arbitrary adversaries is only sampled through these families.",
    "level_note": "Trusts math/big and the harness's re-statement of the protocol equations (validated on every case by the accepted null-deviation control). Toy keys use Ln=320 instead of 256 so that messages stay below the group order.",
    "rule": ("one case = key x 1..6 attributes from boundary classes x disclosure set x session kind; evaluations = verdicts judged. "
             "Non-trivial: honest proofs with a non-empty disclosure set, every alteration, every equation-valid forgery (split, order shift); "
             "distinct by (key, class vector, disclosure set, family, deviation parameter)."),
    "assumptions": ["math/big", "control proofs (null deviation) accepted on every case"],
    "units": [
        {"pkg": "root", "run": "TestVF_C01", "rapid": {"quick": 250, "thorough": 3000},
         "shards": {"quick": 8, "thorough": 16}, "timeout": {"quick": 400, "thorough": 3000}},
    ],
}

CHECKS["C03"] = {
    "level": "exploration",
    "exhaustive_claim": False,
    "technique": "bounded-exhaustive enumeration of (list length 2..4, secret-assignment pattern, labelling partition) + rapid-generated shapes/values, with colluding-holder forgeries (attribute 0 disclosed/split, second response on the secret-key base); oracle = model of label classes",
    "level_text": "Every set partition of positions into secrets (<=3) and labels (nil + all partitions) for lists of 2..4 builders is built honestly with the shared secret-key randomiser and judged against the model 'accept iff each label class holds one secret'; for each rejected shape three equation-valid forgeries by colluding holders must be rejected as well, null-deviation controls must be accepted.",
    "level_note": "Builder kinds (disclosure/issuance) and keys (toy/1024/2048) vary with the shape index rather than being enumerated; soundness against other forgery strategies is not covered.",
    "rule": ("case = one proof list presented to ProofList.Verify with a label vector; honest shapes enumerated exhaustively (296 shapes) and drawn by rapid with generated secrets (differing by +1, one bit, or random). "
             "Non-trivial: lists with >= 2 distinct secrets, and every adversarial variant; distinct by (secrets, labels, kinds, keys, session flag, variant)."),
    "assumptions": ["math/big", "control lists (null-deviation adversarial builders) accepted"],
    "units": [
        {"pkg": "root", "run": "TestVF_C03_Exhaustive", "shards": {"quick": 8, "thorough": 16}},
        {"pkg": "root", "run": "TestVF_C03_Random", "rapid": {"quick": 150, "thorough": 2000}, "shards": {"quick": 6, "thorough": 16}},
    ],
}

CHECKS["C02"] = {
    "level": "fault_enumeration",
    "technique": "metamorphic property-based testing: rapid-generated proof lists (1..4 builders, disclosure/issuance, non-revocation and range parts, 1..3 keys) x complete enumeration of session-tuple changes (bit flips of context/nonce, flag, all permutations, sub-lists, duplications, splices, key substitutions, empty lists); oracle = original accepted, every changed tuple rejected; one decoded list verified under generated sequences of tuples and keys (also another key with the same issuer/counter identifier), each verdict compared with that of a fresh object",
    "level_text": "For each generated honest list, every change of the enumerated fault set is applied one at a time and presented (decoded freshly from JSON) to ProofList.Verify / ProofD.Verify / ProofU.Verify; acceptance of any changed tuple is a violation, rejection of the original is a failed control.",
    "level_note": "Changes are guaranteed to differ from the original tuple (identity permutations, equal values and substitutions of unused key elements are excluded). Honest non-revocation proofs falling into the known C11 ambiguity class are excluded and counted.",
    "rule": ("case = one (proof list, changed tuple) presentation. Non-trivial: every presentation (the original and each changed tuple in which all individual proofs are well-formed); "
             "distinct by (list shape incl. keys, session flag, change class, change parameter)."),
    "assumptions": ["encoding/json round trip of ProofList is meaning-preserving (checked by C18)"],
    "units": [
        {"pkg": "root", "run": "TestVF_C02", "rapid": {"quick": 35, "thorough": 400},
         "shards": {"quick": 8, "thorough": 16}, "timeout": {"quick": 500, "thorough": 3400}},
    ],
}

CHECKS["C08"] = {
    "level": "fault_enumeration",
    "technique": "structure-aware JSON mutation of valid proof lists driven by rapid (shrinking) + hostile constants; native coverage-guided fuzzing of the decoders and of the mutator's choices in the thorough tier; oracle = no panic from any verification entry point, and ACCEPT only for documents semantically identical to the seed; re-verification of the same decoded objects (also under keys with fewer bases); enumeration of single-member removals; sessions of a holder with secret 0 and randomiser 0, in which structural checks alone decide",
    "level_text": "Valid documents of every shape (disclosure, issuance, blind attributes, non-revocation, 3- and 4-square range proofs, mixed lists, IssueCommitmentMessage; keys with and without revocation material) are mutated by 1..3 structural operators (delete, null, re-key to boundary indices, swap/copy sub-trees, array surgery, retype, integer replacement) and presented to ProofList.Verify (with/without labels, with a key too few) and to each element's Verify. Panics are grouped by innermost gabi frame.",
    "level_note": "The l_d field of range proofs is excluded from the identity comparison (it only loosens size limits and is not bound by the challenge). Fuzzing campaigns are not seed-reproducible; the saved crasher is the replay unit.",
    "rule": ("case = one mutated document presented to all entry points. Non-trivial: mutated documents that still decode (reach verification); distinct by the mutated document's bytes; classes name the sub-tree hit (main, maps, nonrev, range, issuance)."),
    "assumptions": ["encoding/json", "seed documents are accepted unmutated (control on every case)"],
    "units": [
        {"pkg": "root", "run": "TestVF_C08_Mutator", "rapid": {"quick": 250, "thorough": 1500},
         "shards": {"quick": 8, "thorough": 16}, "timeout": {"quick": 500, "thorough": 3400}},
        {"pkg": "root", "run": "TestVF_C08_Hostile"},
        {"pkg": "root", "fuzz": "FuzzVF_C08_Raw", "run": "FuzzVF_C08_Raw", "prepare": "TestVF_C08_WriteFuzzSeeds", "tiers": ["thorough"],
         "seconds": {"thorough": 240}, "workers": 8},
        {"pkg": "root", "fuzz": "FuzzVF_C08_Mut", "run": "FuzzVF_C08_Mut", "prepare": "TestVF_C08_WriteFuzzSeeds", "tiers": ["thorough"],
         "seconds": {"thorough": 240}, "workers": 8},
    ],
}

CHECKS["C04"] = {
    "level": "exploration",
    "exhaustive_claim": False,
    "technique": "property-based testing (rapid) over credentials with boundary-class attribute values, with exhaustive enumeration of all 2^k disclosure subsets x both session kinds per credential; oracle = ground truth of chosen indices/values + leak scan of the proof's JSON and of the timestamp contribution",
    "level_text": "For every generated credential (plain, random-blind issuance, non-revocation; toy/1024/2048-bit keys) every disclosure subset is proven in a disclosure and in a signature session; the proof must verify (after a JSON round trip), report exactly the chosen indices with the exact attribute integers, carry a fully randomised response for every other index, not verify for the other session kind, and neither its JSON nor the timestamp contribution may contain a distinctive hidden value or its SHA-256.",
    "level_note": "Subset dimension is exhaustive per credential (k<=6 toy, smaller for big keys in quick); value classes are sampled. The leak scan detects verbatim leaks (and unrandomised responses), not statistical leakage.",
    "rule": ("case = one (credential, disclosure subset, session kind). Non-trivial: subset neither empty nor full, or containing an oversized value; distinct by (key, variant, class vector, subset mask, session kind)."),
    "assumptions": ["math/big, crypto/sha256"],
    "units": [
        {"pkg": "root", "run": "TestVF_C04", "rapid": {"quick": 80, "thorough": 600},
         "shards": {"quick": 8, "thorough": 16}, "timeout": {"quick": 500, "thorough": 3400}},
    ],
}

CHECKS["C06"] = {
    "level": "fault_enumeration",
    "technique": "property-based testing (rapid) over issuance configurations (attribute classes x blind subset x keyshare x witness x key size) with complete enumeration of single-field alterations and cross-run substitutions of the protocol messages; oracle = honest run yields a credential over exactly (secret, attributes, blind = sum of shares), every deviation makes the receiving call fail without producing a credential; every refused message object presented a second time; self-consistent forged witness under an accumulator not signed by the issuer",
    "level_text": "Each generated configuration is run honestly with every message passing through JSON, the outcome is compared with the ground truth, and then every listed single-field deviation of the commitment message (judged at the issuer's ProofList.Verify) and of the signature message / nonces / commitment (judged at the user's ConstructCredential) is applied one at a time; a panic counts as not rejected.",
    "level_note": "Reads the user's blind shares from the unexported CredentialBuilder.mUser (in-package test). Deviations that leave the proven statement unchanged (v + ord, in-range v' + ord) are expected to be accepted and are checked in that direction.",
    "rule": ("case = one protocol run or one deviation presented to its receiver. Non-trivial: every case (honest runs over generated configurations and deviations that leave every other field valid); "
             "distinct by (configuration class: #blind, keyshare, witness, key size; message; field; alteration)."),
    "assumptions": ["encoding/json round trip of the messages (C18)"],
    "units": [
        {"pkg": "root", "run": "TestVF_C06", "rapid": {"quick": 100, "thorough": 800},
         "shards": {"quick": 8, "thorough": 16}, "timeout": {"quick": 500, "thorough": 3400}},
        {"pkg": "root", "run": "TestVF_C06_LegacyKeyshare", "rapid": {"quick": 12, "thorough": 150}, "shards": {"quick": 2, "thorough": 4}},
        {"pkg": "root", "run": "TestVF_C06_CommitmentAccess", "rapid": {"quick": 150, "thorough": 2000}, "shards": {"quick": 1, "thorough": 4}},
    ],
}

CHECKS["C14"] = {
    "level": "fault_enumeration",
    "technique": "property-based testing (rapid) over builder compositions (1..4 builders, 1..3 keys of 1024/2048 bits in any order, every participation pattern, non-revocation/range parts, both session kinds, arbitrary context) with complete enumeration of alterations of the keyshare response request relative to the commitment request; oracle = honest exchange completes with equal challenges and a verifying list for total secret, altered second message => error and no response; keyshare key set holding other instances of the same keys",
    "level_text": "The user/server exchange is driven exactly as the API prescribes; ProofP.C must equal the user's challenge, the merged list must verify with the label vector and every secret-key response must equal (r_user + r_server) + c*(s_user + s_server). Each enumerated alteration of the second message (values, commitments incl. +k*N, other commitments, key ids, entries added/removed/reordered, commitment hash) must be refused.",
    "level_note": "Toy keys cannot take part (the server sizes its randomiser for 1024/2048-bit parameters only), so this check runs on 1024- and 2048-bit keys. Nonce and session flag are not committed to in the first message: changing them is not expected to be refused, only to yield a list that does not verify.",
    "rule": ("case = one exchange or one altered second message. Non-trivial: alterations that keep the message well-formed; honest compositions with >= 2 keys of which a strict subset participates, or with context != 1; "
             "distinct by (composition incl. key order and participation, session kind, context class, alteration)."),
    "assumptions": ["fxamacker/cbor and crypto/sha256 inside the library's commitment hash are not re-implemented"],
    "units": [
        {"pkg": "root", "run": "TestVF_C14", "rapid": {"quick": 60, "thorough": 500},
         "shards": {"quick": 8, "thorough": 16}, "timeout": {"quick": 500, "thorough": 3400}},
    ],
}

CHECKS["C07"] = {
    "level": "exploration",
    "technique": "model-based stateful property testing (rapid state machine) over histories of {prepare cache, revoke other + update witness, prove with/without non-revocation and range statements, build proof list, issuance commitment on new/reused builders}, plus a concurrent variant; oracle = pairwise-uniqueness invariant over all implied commitment randomisers (response - c*secret, computed from the harness's knowledge of the secrets), randomised A, C_r/C_u and range commitments",
    "level_text": "After every step of a generated history every value that must never repeat (implied randomisers of all hidden attributes, e, the secret key, issuance secret / v' / blind shares; A'; C_r, C_u; range commitments and responses) is compared with all earlier ones; the only allowed repeat is the shared secret-key randomiser inside one proof list. Equal implied randomisers are exactly the condition under which the two-transcript extractor recovers the secret. All proofs must also verify.",
    "level_note": "Reads CredentialBuilder.secret/vPrime/mUser in-package. Chance repeats have probability < 2^-80. The concurrent variant samples schedules only.",
    "rule": ("case = one history (sequence of actions on 1..3 credentials sharing a key and a pool of issuance builders). Non-trivial: histories with >= 2 proofs of which >= 1 consumed a prepared cache, and every concurrent run; "
             "distinct by action sequence; the number of value pairs compared is reported in classes (pairs-compared)."),
    "assumptions": ["ground truth of all secrets is known to the harness (it plays issuer and holder)"],
    "units": [
        {"pkg": "root", "run": "TestVF_C07", "rapid": {"quick": 120, "thorough": 1500}, "steps": {"quick": 12, "thorough": 16},
         "shards": {"quick": 8, "thorough": 16}, "timeout": {"quick": 500, "thorough": 3400}},
        {"pkg": "root", "run": "TestVF_C07_Concurrent", "shards": {"quick": 2, "thorough": 8}},
    ],
}

CHECKS["C09"] = {
    "level": "exploration",
    "exhaustive_claim": True,
    "technique": "bounded-exhaustive enumeration of revocation histories x update windows x application scripts (shared vs fresh update objects) plus rapid-generated longer histories, each step compared with an abstract model (witness index, revocation point, window bounds, signature time); validity checked against harness-computed accumulator values; receiver-assembled (prepended) updates applied to witnesses at every index, shared and as first user of a fresh object; generated search over every failure exit of Witness.Update",
    "level_text": "Every history up to the bound (each event revokes a fresh value or a not-yet-revoked earlier witness; one witness issued at every index), every contiguous window with the original and a re-signed accumulator, and every script up to the stated length is executed on fresh witness copies; after each step the returned error class, the witness index, its validity u^e = nu_idx (nu recomputed by the harness with the private key), immutability on failure and non-validity of revoked witnesses are checked. A separate generated search drives every failure exit of Witness.Update (gap, revoked value, issuer-signed accumulator value that does not belong to the events, witness damaged in storage) and demands an error and a bit-identical witness; and update messages assembled by the receiver with Update.Prepend (older events decoded from JSON/CBOR with and without a precomputed product, overlapping or adjacent) are applied to witnesses at every index against the same model.",
    "level_note": "Bounds: n<=3 events and all scripts<=2 steps (quick); n<=3 / scripts<=3 (third step thinned by half) and n=4 / scripts<=2 (second step thinned to a third) in thorough; random search n<=12, scripts<=10. Update objects are built in memory with already-verified accumulators (authenticity is C10's subject).",
    "rule": ("case = one application script on one history. Non-trivial: scripts in which a witness receives >= 2 applicable updates, or one update object serves witnesses at two different indices, or a revoked witness is updated across its revocation; distinct by (revocation targets, script)."),
    "assumptions": ["math/big for nu^(1/e mod p'q')"],
    "units": [
        {"pkg": "revocation", "run": "TestVF_C09_Exhaustive", "shards": {"quick": 8, "thorough": 16}, "timeout": {"quick": 500, "thorough": 3400}},
        {"pkg": "revocation", "run": "TestVF_C09_Random", "rapid": {"quick": 800, "thorough": 6000}, "shards": {"quick": 4, "thorough": 16}},
        {"pkg": "revocation", "run": "TestVF_C09_Prepended", "shards": {"quick": 8, "thorough": 16}, "timeout": {"quick": 500, "thorough": 3400}},
        {"pkg": "revocation", "run": "TestVF_C09_FailedUpdate", "rapid": {"quick": 600, "thorough": 6000}, "shards": {"quick": 2, "thorough": 8}},
    ],
}

CHECKS["C10"] = {
    "level": "fault_enumeration",
    "exhaustive_claim": True,
    "technique": "differential testing against an independently written chain/signature verifier: complete enumeration of single corruptions (every field, every byte of parent hashes and of the signed accumulator, event deletion/duplication/insertion/swaps, accumulator substitutions) over chains and windows, three transports (memory, JSON, CBOR), plus rapid-sampled double corruptions; Hash.Equal and Update.Prepend checked as functions; native fuzzing of the decoders in the thorough tier; enumeration of null/removed members at every position of the JSON and CBOR wire forms; decoded objects are verified themselves and presented twice",
    "level_text": "For every corrupted update the library (Update.Verify, Witness.Update, Update.Prepend) must succeed exactly when the reference verifier says the received data are an authentically signed accumulator for the receiver's key and a gap-free, correctly indexed hash chain ending in the signed event hash; on rejection the witness / update must equal its snapshot. Corruptions that leave an authentic message (re-signed accumulator, issuer-signed alternative chain, dropped leading events) are decided by the reference, not assumed invalid.",
    "level_note": "The reference uses fxamacker/cbor (third party) to open the signed tuple, crypto/ecdsa + encoding/asn1 for the signature, crypto/sha256 for event hashes; it shares no code with package revocation or signed.",
    "rule": ("case = one (chain length, window, corruption(s), transport) presented to the entry points. Non-trivial: corrupted updates that survive transport (decode) and reach a hash or signature comparison; distinct by (n, window, transport, corruption names)."),
    "assumptions": ["fxamacker/cbor decoding", "crypto/ecdsa, crypto/sha256, encoding/asn1"],
    "units": [
        {"pkg": "revocation", "run": "TestVF_C10_Single", "shards": {"quick": 8, "thorough": 16}, "timeout": {"quick": 500, "thorough": 3400}},
        {"pkg": "revocation", "run": "TestVF_C10_Double", "rapid": {"quick": 400, "thorough": 3000}, "shards": {"quick": 2, "thorough": 16}},
        {"pkg": "revocation", "run": "TestVF_C10_HashEqual", "rapid": {"quick": 300, "thorough": 3000}},
        {"pkg": "revocation", "run": "TestVF_C10_WireStructure"},
        {"pkg": "revocation", "run": "TestVF_C10_Prepend", "shards": {"quick": 4, "thorough": 16}},
        {"pkg": "revocation", "fuzz": "FuzzVF_C10_UpdateJSON", "run": "FuzzVF_C10_UpdateJSON", "tiers": ["thorough"], "seconds": {"thorough": 150}, "workers": 8},
        {"pkg": "revocation", "fuzz": "FuzzVF_C10_UpdateCBOR", "run": "FuzzVF_C10_UpdateCBOR", "tiers": ["thorough"], "seconds": {"thorough": 150}, "workers": 8},
    ],
}

CHECKS["C13"] = {
    "level": "exploration",
    "exhaustive_claim": False,
    "technique": "property-based testing (rapid) of completeness over true-by-construction statements (bound := factor*m - sign*delta) + exhaustive enumeration of every difference of three-square tables for both signs; oracle = proof creation succeeds, proof verifies (also after JSON round trip), library reports the requested statement as proven",
    "level_text": "Statements are generated from a hidden attribute m, sign, factor 1..8 and a difference delta >= 0 drawn from a dense window at 0, 2^k+-1, 4^j(8i+7), values up to 2^256-1 (four squares) or every table entry 0..limit (three squares, factor 1), 1..3 statements per attribute on 1..2 attributes, toy/1024/2048-bit keys. Any creation error, rejection or Proves()==false is a violation.",
    "level_note": "Documented limits used as preconditions: four squares delta < 2^256 (l_d = 128), three squares delta <= table limit and factor 1, factors <= 8, m < 2^Lm.",
    "rule": ("case = one disclosure proof carrying 1..6 range proofs. Non-trivial: every case (all statements are true and within documented limits); classes record sign, splitter, factor>1, delta=0, delta in the top quarter of a table, delta >= 2^128; distinct by (key, m, statement list)."),
    "assumptions": ["statements are true by construction (integer arithmetic in the generator)"],
    "units": [
        {"pkg": "root", "run": "TestVF_C13_Table", "shards": {"quick": 8, "thorough": 16}, "timeout": {"quick": 500, "thorough": 3400}},
        {"pkg": "root", "run": "TestVF_C13_Random", "rapid": {"quick": 150, "thorough": 1500}, "shards": {"quick": 8, "thorough": 16}, "timeout": {"quick": 500, "thorough": 3400}},
    ],
}

CHECKS["C12"] = {
    "level": "exploration",
    "exhaustive_claim": False,
    "technique": "bounded-exhaustive enumeration of proof descriptors x queried statements x attribute values against arbitrary-precision integer semantics (statement logic), plus property-based testing (rapid) of accepted disclosure proofs under transplant/alteration forgeries of their range proofs; oracle = integer truth of every statement the library reports or implies for the signed value, and placement of range proofs on hidden indices only; harness-side range prover written from the relations (control: true statement accepted) with non-unit commitments, a factor that wraps a machine integer, and an own m-response; every presented object verified twice",
    "level_text": "Part A enumerates every descriptor (sign, squares, a, k) on an integer box, keeps those true for an attribute value m, and requires every ProvesStatement()==true query (incl. factors near 2^62..2^64 and unsupported signs) and the ProvenStatement() triple to be true for m. Part B proves generated true statements, requires false ones (bound beyond m by one) to be refused, then moves, duplicates, re-attaches and alters the carried range proofs; whenever verification ACCEPTS, every carried range proof must sit on a hidden index of that proof and its reported statement must hold for the signed attribute.",
    "level_note": "Soundness against provers that know the group order (wrap-around of the sum of squares on undersized toy groups) is outside the holder model and not attempted.",
    "rule": ("Part A case = (descriptor, attribute value, query) with ProvesStatement true, or (descriptor, attribute) for ProvenStatement; non-trivial = query differs from the descriptor. Part B case = one presented proof; non-trivial = accepted proofs with >= 1 range proof and every forgery; distinct by the tuple / (key, statements, forgery)."),
    "assumptions": ["math/big integer arithmetic as the reference semantics"],
    "units": [
        {"pkg": "rangeproof", "run": "TestVF_C12_StatementLogic", "shards": {"quick": 8, "thorough": 16}, "timeout": {"quick": 500, "thorough": 3400}},
        {"pkg": "root", "run": "TestVF_C12_Forgeries", "rapid": {"quick": 50, "thorough": 500}, "shards": {"quick": 8, "thorough": 16}, "timeout": {"quick": 500, "thorough": 3400}},
        {"pkg": "root", "run": "TestVF_C12_DegenerateCommitments", "rapid": {"quick": 40, "thorough": 400}, "shards": {"quick": 2, "thorough": 8}},
    ],
}

CHECKS["C11"] = {
    "level": "exploration",
    "technique": "model-based stateful property testing (rapid state machine over {prepare cache, revoke other, revoke self, update witness, prove+verify, tampered witness}) + forgery enumeration on accepted proofs (alterations, accumulator substitution, transplants between credentials and proofs of one session) + boundary-directed generation for the verifier's revocation-attribute selection; oracle = model of (witness index, revocation point) and ground truth of the accumulator each proof was made against; harness-side non-revocation prover written from the proof relations (control: valid witness accepted) run without a witness with non-unit commitments and against a holder-made accumulator, with re-verification",
    "level_text": "Every honest proof must verify and the accumulator (index, time, value) a verifier reads from the accepted proof must be the one the witness pointed to at proving time, also when a prepared commitment was refreshed after witness updates; a revoked credential must report ErrorRevoked when updated across its revocation, stay unchanged, and never have a proof accepted against an accumulator at or after its revocation; every enumerated forgery of an accepted proof must be rejected.",
    "level_note": "Soundness against an arbitrary prover holding a revoked witness is a cryptographic assumption and only sampled through the listed forgeries. The boundary test sets DisclosureProofBuilder.attrRandomizers in-package to a legal small draw.",
    "rule": ("case = one history, one forgery, or one boundary-directed proof (verified 16 times). Non-trivial: histories containing an accepted proof after a cache refresh or after revoke-self, every forgery, every boundary case; distinct by action sequence / forgery kind / randomiser."),
    "assumptions": ["the harness plays issuer (private key) and holder"],
    "units": [
        {"pkg": "root", "run": "TestVF_C11_Histories", "rapid": {"quick": 60, "thorough": 500}, "steps": {"quick": 10, "thorough": 14},
         "shards": {"quick": 8, "thorough": 16}, "timeout": {"quick": 500, "thorough": 3400}},
        {"pkg": "root", "run": "TestVF_C11_Boundary", "rapid": {"quick": 6, "thorough": 60}, "shards": {"quick": 2, "thorough": 8}},
        {"pkg": "root", "run": "TestVF_C11_WitnesslessProver", "rapid": {"quick": 20, "thorough": 200}, "shards": {"quick": 2, "thorough": 8}},
    ],
}

CHECKS["C19"] = {
    "level": "exploration",
    "exhaustive_claim": False,
    "technique": "exhaustive enumeration of small domains (all a mod p for odd primes p < 2^12, all n < 2^15/2^20 for four squares, all moduli 2^b-c for b <= 12, all x <= 2^16 for safe-prime recognition, all residues for small ModSqrt factor lists) + rapid-generated large operands up to 4096 bits, compared with math/big and with the defining equations; saved vectors re-checked by an independent pure-Python implementation in the thorough tier",
    "level_text": "Each helper is compared on every generated input with its mathematical definition (a*inv = 1 and existence iff gcd = 1; Euler criterion / big.Jacobi; congruences of CRT; r^2 = a and existence per factor; four non-negative squares summing to n; x mod p in [0,p) with aliasing and negative operands; primes inside [2^start, 2^start+2^length]; safe primes of the exact size; table exponentiation = base^(e mod order)).",
    "level_note": "RandomPrimeInRange is only called on intervals that contain a prime (it legitimately does not terminate otherwise). Group.Exp is fed exponents in (-order, order) only (documented panic outside).",
    "rule": ("case = one helper evaluation. Non-trivial: inputs hitting the rarer branches (non-invertible operands, negative exponents, p = 1 mod 8, >= 3 ModSqrt factors, n = 0/1/3 mod 4 for four squares, negative or aliased FastMod operands, negative Group exponents) and every random large operand; distinct by (helper, operands)."),
    "assumptions": ["math/big (Exp, GCD, Jacobi, ProbablyPrime, ModInverse) as reference", "python3 integers (thorough)"],
    "units": [
        {"pkg": "internal__common", "run": "TestVF_C19_ModInverse", "rapid": {"quick": 1500, "thorough": 20000}},
        {"pkg": "internal__common", "run": "TestVF_C19_LegendreSqrt", "rapid": {"quick": 300, "thorough": 3000}, "shards": {"quick": 4, "thorough": 16}},
        {"pkg": "internal__common", "run": "TestVF_C19_CrtModSqrt", "rapid": {"quick": 300, "thorough": 4000}, "shards": {"quick": 2, "thorough": 8}},
        {"pkg": "internal__common", "run": "TestVF_C19_FourSquares", "rapid": {"quick": 500, "thorough": 5000}, "shards": {"quick": 4, "thorough": 16}},
        {"pkg": "internal__common", "run": "TestVF_C19_FastMod", "rapid": {"quick": 3000, "thorough": 50000}, "shards": {"quick": 2, "thorough": 8}},
        {"pkg": "internal__common", "run": "TestVF_C19_RandomPrimeInRange", "rapid": {"quick": 150, "thorough": 2000}, "shards": {"quick": 2, "thorough": 8}},
        {"pkg": "internal__common", "run": "TestVF_C19_PythonVectors"},
        {"pkg": "safeprime", "run": "TestVF_C19_SafePrimeRecognition", "shards": {"quick": 2, "thorough": 4}},
        {"pkg": "safeprime", "run": "TestVF_C19_SafePrimeGenerate", "rapid": {"quick": 60, "thorough": 600}, "shards": {"quick": 2, "thorough": 8}},
        {"pkg": "zkproof", "run": "TestVF_C19_GroupExp", "rapid": {"quick": 2000, "thorough": 30000}},
    ],
}

CHECKS["C16"] = {
    "level": "exploration",
    "technique": "volume generation of issuer keys at toy lengths (sequential and 2..8 concurrent generations), each key judged by independently written predicates (math/big primality, Jacobi symbols, orders, congruences mod 8, consistency of derived values, revocation key pair), goroutine accounting after every batch, and direct stop scripts for the concurrent safe-prime generator; injected faults of the random source (fails once / from some read on): generation must return and leave no worker",
    "level_text": "Every generated key must satisfy all structural predicates of the property; after each batch the goroutine count must return to its baseline within 5 s (otherwise the goroutine profile is stored as the finding); GenerateConcurrent is stopped in five different ways at different moments and must leave no worker.",
    "level_note": "Schedules are whatever the Go scheduler produces (not seed-reproducible); generation that exceeds a generous time budget is reported as inconclusive, not as a violation. S generating QR_n is checked through its order; if S is not a generator (probability ~2^-(Ln/2)) subgroup membership is counted as undecided.",
    "rule": ("case = one generated key pair (fresh random object) or one stop script. Non-trivial: every case; distinct by modulus N / by (stop style, size, results read, repetition); classes by (Ln, parallelism)."),
    "assumptions": ["math/big primality testing and Jacobi symbols"],
    "units": [
        {"pkg": "gabikeys", "run": "TestVF_C16_Keys", "shards": {"quick": 4, "thorough": 8}, "timeout": {"quick": 900, "thorough": 3400}},
        {"pkg": "safeprime", "run": "TestVF_C16_WorkerStop", "shards": {"quick": 2, "thorough": 4}, "timeout": {"quick": 600, "thorough": 3400}},
        {"pkg": "gabikeys", "run": "TestVF_C16_RandomSourceFault", "shards": {"quick": 2, "thorough": 4}, "timeout": {"quick": 900, "thorough": 3400}},
    ],
}

CHECKS["C18"] = {
    "level": "fault_enumeration",
    "technique": "round-trip property testing (rapid) of integers and of every protocol message type with verdict preservation, exhaustive enumeration of single-element corruptions of key documents (three readers, demo on/off) and of prior file states x umasks x overwrite flag for key files; native fuzzing of the key readers in the thorough tier",
    "level_text": "Integers over boundary byte lengths survive JSON (both input forms), XML, binary and CBOR, negatives are refused by the text encodings; key documents round-trip field by field through all three readers; every single-element deletion, negation, garbling, count or length change of a key document yields an error (never a panic or a key object) when the element is mandatory; every message type re-read from JSON/CBOR verifies exactly as the original did; a written private-key file never has group/other permission bits.",
    "level_note": "Runs as root in this sandbox: permission-denied cases cannot occur, the resulting mode is asserted regardless. The umask sub-check runs in its own process.",
    "rule": ("case = one round trip / one corrupted document through one reader / one file-state tuple. Non-trivial: boundary-length and negative integers, each (element, corruption) pair, messages with optional parts present, each state tuple; distinct by value / (document, corruption, reader) / tuple."),
    "assumptions": ["encoding/json, encoding/xml, fxamacker/cbor as transport"],
    "units": [
        {"pkg": "big", "run": "TestVF_C18_BigInt", "rapid": {"quick": 3000, "thorough": 60000}, "shards": {"quick": 1, "thorough": 4}},
        {"pkg": "gabikeys", "run": "TestVF_C18_KeyRoundTrip"},
        {"pkg": "gabikeys", "run": "TestVF_C18_MalformedKeys"},
        {"pkg": "gabikeys", "run": "TestVF_C18_KeyFileModes"},
        {"pkg": "root", "run": "TestVF_C18_Messages", "rapid": {"quick": 150, "thorough": 800}, "shards": {"quick": 6, "thorough": 16}},
        {"pkg": "gabikeys", "fuzz": "FuzzVF_C18_PublicKey", "run": "FuzzVF_C18_PublicKey", "tiers": ["thorough"], "seconds": {"thorough": 120}, "workers": 8},
        {"pkg": "gabikeys", "fuzz": "FuzzVF_C18_PrivateKey", "run": "FuzzVF_C18_PrivateKey", "tiers": ["thorough"], "seconds": {"thorough": 120}, "workers": 8},
    ],
}

CHECKS["C20"] = {
    "level": "exploration",
    "technique": "stress scripts with seed-drawn plans run under the Go race detector over a grid of goroutine counts and GOMAXPROCS values; oracles = race reports whose stacks contain gabi frames (grouped by racing sites), sequential validity and randomiser-uniqueness of every concurrently produced proof/key, and an exact keystream-partition check of the counter-mode generator (every read = run of consecutive counters, runs disjoint, union = [0, final counter)); white-box long-run test of the keystream counter (moved to just below 2^32 / 2^33 / 2^48)",
    "level_text": "Shared objects the library treats as shareable (one credential incl. first-time cache preparation, one public key and signed accumulator, the process-wide generator, parallel key generation and key-proof construction) are exercised concurrently; any race report involving library code, any invalid or repeated result and any keystream block handed out twice or skipped is a violation.",
    "level_note": "Schedules are sampled by the Go scheduler, not enumerated, and are not seed-reproducible: the plan and the race report are the replay artefacts. A race needing a rare interleaving can be missed.",
    "rule": ("case = one repetition of a stress script (plan drawn from the seed) at one (goroutines, GOMAXPROCS) point. Non-trivial: runs in which >= 2 goroutines overlapped on the shared object; distinct by (script, repetition, goroutines, GOMAXPROCS, seed)."),
    "assumptions": ["Go race detector (happens-before; reports only races that occur in the explored schedules)"],
    "units": [
        {"pkg": "root", "run": "TestVF_C20_Credential", "race": True, "shards": {"quick": 4, "thorough": 8}, "timeout": {"quick": 900, "thorough": 3400}},
        {"pkg": "internal__common", "run": "TestVF_C20_Keystream", "race": True, "shards": {"quick": 2, "thorough": 4}, "timeout": {"quick": 600, "thorough": 3400}},
        {"pkg": "internal__common", "run": "TestVF_C20_KeystreamLongRun", "race": True, "timeout": {"quick": 600, "thorough": 3400}},
        {"pkg": "gabikeys", "run": "TestVF_C20_KeyGen", "race": True, "shards": {"quick": 1, "thorough": 4}, "timeout": {"quick": 900, "thorough": 3400}},
        {"pkg": "keyproof", "run": "TestVF_C20_KeyProofParallel", "race": True, "rapid": {"quick": 30, "thorough": 60}, "timeout": {"quick": 900, "thorough": 3400}},
    ],
}

CHECKS["C17"] = {
    "level": "fault_enumeration",
    "technique": "property-based testing (rapid) of every key-proof component as a Fiat-Shamir round over generated operands with enumeration of leaf alterations of the proof's JSON (sampled when large, stratified by leaf kind) and honest-algorithm-on-false-witness provers; the four Gennaro proofs on generated good moduli and on moduli of every forbidden shape with factorisation-aware cheating provers that grind the challenge; whole proofs for fresh small keys with wrong statements and altered leaves; factorisation-aware prover for N = (2p'+1)(4k+1) (side condition), false statements with operand commitments replaced by 0, a whole proof forged for N = (2r^3+1)(2q'+1) with a zero commitment (control: same prover convinces of a good key), the bases-are-squares component with 0..24 bases",
    "level_text": "Completeness: true statements proven honestly are accepted (also after JSON round trip). Binding: altering any leaf of a component proof, Gennaro proof or whole proof makes verification fail. Soundness is sampled: false statements proven with the honest algorithm, and bad moduli (p^2 q, p^3, p q r, p^2, factor < 1024, N != 5 mod 8, N != 1 mod 3) with best-effort cheating provers, must be rejected.",
    "level_note": "Weakest claim: soundness against arbitrary cheating provers cannot be established by testing; what is shown is completeness, binding of every component into the challenge, and rejection of the listed shapes under the listed strategies (up to a few thousand challenge grinding attempts). A whole proof costs 15-40 s, so only 1-2 keys per run.",
    "rule": ("case = one component round / altered leaf / false statement / bad modulus / whole-proof presentation. Non-trivial: all of these (honest rounds over generated operands, every altered leaf, every false or bad instance); distinct by (component, operands, leaf path, mode) / (shape, modulus); leaf kinds covered are listed in classes."),
    "assumptions": ["math/big, safeprime.Generate for fixture primes"],
    "units": [
        {"pkg": "keyproof", "run": "TestVF_C17_Components", "rapid": {"quick": 8, "thorough": 120}, "shards": {"quick": 6, "thorough": 16}, "timeout": {"quick": 900, "thorough": 3400}},
        {"pkg": "keyproof", "run": "TestVF_C17_Gennaro", "rapid": {"quick": 2, "thorough": 20}, "shards": {"quick": 3, "thorough": 16}, "timeout": {"quick": 900, "thorough": 3400}},
        {"pkg": "keyproof", "run": "TestVF_C17_BasesValid", "rapid": {"quick": 25, "thorough": 400}, "shards": {"quick": 2, "thorough": 8}, "timeout": {"quick": 900, "thorough": 3400}},
        {"pkg": "keyproof", "run": "TestVF_C17_PrimeModulus", "rapid": {"quick": 40, "thorough": 400}},
        {"pkg": "keyproof", "run": "TestVF_C17_SideConditions", "rapid": {"quick": 6, "thorough": 60}, "shards": {"quick": 2, "thorough": 8}, "timeout": {"quick": 900, "thorough": 3400}},
        {"pkg": "keyproof", "run": "TestVF_C17_ForgedWhole", "rapid": {"quick": 2, "thorough": 12}, "shards": {"quick": 3, "thorough": 8}, "timeout": {"quick": 900, "thorough": 3400}},
        {"pkg": "keyproof", "run": "TestVF_C17_Whole", "shards": {"quick": 1, "thorough": 6}, "timeout": {"quick": 900, "thorough": 3400}},
    ],
}
