#!/usr/bin/env python3
"""Regenerates MANIFEST.json from checks.py (claimed checks) + properties.jsonl (the rest -> not_applicable)."""
import json, os, sys
sys.path.insert(0, os.path.dirname(os.path.abspath(__file__)))
from checks import CHECKS

props = [json.loads(l) for l in open("properties.jsonl")]
checks = []
na = []
for p in props:
    cid = p["id"]
    spec = CHECKS.get(cid)
    if not spec or spec.get("unclaimed"):
        na.append({"property_id": cid, "reason": (spec or {}).get("unclaimed", "check not built yet (work in progress)")})
        continue
    checks.append({
        "property_id": cid,
        "quick_cmd": f"./vf check {cid} quick",
        "thorough_cmd": f"./vf check {cid} thorough",
        "evidence_file": f"/verif/evidence/{cid}.json",
        "replay_cmd_template": "./vf replay {path}",
        "engine": "vf",
        "level_claimed": {"category": spec["level"], "text": spec["level_text"], "design_ref": "DESIGN.md section 3, " + cid},
        "level_note": spec["level_note"],
        "technique": spec["technique"],
    })
m = {
    "version": 1,
    "setup_cmd": "./vf setup",
    "hooks": {
        "guard": "build overlay (go test -overlay); no source change in /repo, so there is nothing to switch off",
        "enable": "vf generates an overlay that injects /verif/harness/** into the package directories of /repo at compile time "
                  "(one non-test hook: internal/common/zz_vf_hook.go = VfReseedCPRNG) and an alternate go.mod adding pgregory.net/rapid v1.3.0",
        "baseline_off_cmd": "cd /repo && go test -vet=off -count=1 -timeout 25m ./...",
        "source_commits": [],
        "add_only": True,
    },
    "engines": [{"name": "vf", "path": "/verif/vf", "serves_properties": [c["property_id"] for c in checks],
                 "kind_free_text": "python driver + Go in-package property tests (pgregory.net/rapid v1.3.0, bounded-exhaustive enumeration, native go fuzzing in thorough tier) compiled against /repo's working tree through a build overlay"}],
    "checks": checks,
    "not_applicable": na,
    "notes": "All checks: exit 0 held / exit 1 + VIOLATION line / exit 2 inconclusive (build failure, timeout, failed control). VERIF_SEED selects the rapid seed. Known findings: /verif/known_findings.jsonl.",
}
json.dump(m, open("MANIFEST.json", "w"), indent=1)
print("claimed", len(checks), "not_applicable", len(na))
